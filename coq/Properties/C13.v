(** C13 - Optimization never worsens quality; only clamped vertices move, on constraints.

    All statements are about the executable model Model/C13_Optimizer.v (optimize_clamp,
    _get_sensitivity, GridBase.update, optimize, backport) and hold
      - for every clamp function, link transform and quality function (parameters of the model),
      - for every behaviour of scipy.optimize.minimize / approx_fprime (oracles: arbitrary trial lists,
        an exception at any trial or from the routine itself),
      - for every order in which the sensitivity sort visits the clamps, any number of iterations.
    [run_events] runs an arbitrary sequence of measure / probe / optimize_clamp events; optimize() is
    the special case [optimize_events].  The model is tied to the code by the correspondence of
    harness/props/C13.py (the model is evaluated inside Coq on the recorded oracles). *)
From Coq Require Import List Bool Arith Reals QArith.
From CB Require Import Model.C13_Optimizer Model.C13_Cases Proofs.C13_Optimizer Proofs.C13_Whole Proofs.C13_Instances.
Import ListNotations.
Close Scope Q_scope.
Open Scope nat_scope.

(** ** no worse *)
(** From a state in which every clamp sits on its manifold point ([inv]: junction = function(params),
    followers = transform(leader)), a completed run leaves the summed quality no worse.  The
    hypothesis is established by the first sensitivity pass ([C13_snap] below); before it the clamped
    vertices are within the clamp-initialisation tolerance of function(params) (monitored by the harness). *)
Definition C13_no_worse_stmt : Prop :=
  forall (X P V : Type) (leb : V -> V -> bool) (g : grid X P V),
    total leb -> transitive leb ->
    forall (evs : list (event X)) (st : state X P) tr fin q,
      wf g (length (pts st)) -> inv g st ->
      run_events leb g st evs = (tr, fin) -> completed tr = true ->
      g_gq g (pts st) = Some q ->
      exists q', g_gq g (pts fin) = Some q' /\ leb q' q = true.

(** The same for ANY rollback test [rb] in place of the code's "improvement <= 0" and any order [le] in
    which "no worse" is read, as long as a result that is not rolled back is no worse
    ([keeps_no_worse rb le]: rb q0 q1 = false -> le q1 q0).  Instances: rb = le = a total preorder
    (the code); rb = "<", le = "<=" (ties kept instead of rolled back). *)
Definition C13_no_worse_any_test_stmt : Prop :=
  forall (X P V : Type) (rb le : V -> V -> bool) (g : grid X P V),
    reflexive_le le -> transitive_le le -> keeps_no_worse rb le ->
    forall (evs : list (event X)) (st : state X P) tr fin q,
      wf g (length (pts st)) -> inv g st ->
      run_events rb g st evs = (tr, fin) -> completed tr = true ->
      g_gq g (pts st) = Some q ->
      exists q', g_gq g (pts fin) = Some q' /\ le q' q = true.

(** the same for optimize() as a whole, on the backported mesh *)
Definition C13_optimize_no_worse_stmt : Prop :=
  forall (X P V : Type) (leb : V -> V -> bool) (g : grid X P V),
    total leb -> transitive leb ->
    forall its (st : state X P) mesh tr fin mesh' q,
      wf g (length (pts st)) -> inv g st ->
      optimize leb g st mesh its = (tr, fin, mesh') -> completed tr = true ->
      g_gq g (pts st) = Some q ->
      exists q', g_gq g mesh' = Some q' /\ leb q' q = true.

(** optimize() as a whole needs NO hypothesis on the entry state: the sensitivity pass of its first
    iteration (one probe per clamp, in grid.clamps order) puts every clamp on function(its own initial
    params) and every follower on its image ([snap]: parameters unchanged, every clamp sits); the
    backported result is no worse than that snapped state.  (Before the snap the clamped vertices are
    within the clamp-initialisation tolerance of function(params): monitored by the harness.) *)
Definition C13_optimize_any_entry_stmt : Prop :=
  forall (X P V : Type) (rb le : V -> V -> bool) (g : grid X P V),
    reflexive_le le -> transitive_le le -> keeps_no_worse rb le ->
    forall probes order rest (st : state X P) mesh tr fin mesh',
      wf g (length (pts st)) -> length probes = length (g_clamps g) ->
      optimize rb g st mesh ((probes, order) :: rest) = (tr, fin, mesh') -> completed tr = true ->
      exists tr0 snap q_s q',
        run_events rb g st (EMeasure :: probe_events probes) = (tr0, snap) /\ completed tr0 = true /\
        prm snap = prm st /\ inv g snap /\
        g_gq g (pts snap) = Some q_s /\ mesh' = pts fin /\ inv g fin /\
        g_gq g mesh' = Some q' /\ le q' q_s = true.

(** its hypotheses hold on a run that starts OFF the manifolds (junction 0 at 5, function(params) = 3;
    follower at 99, image 13) *)
Example C13_any_entry_satisfiable :
  let st := {| pts := [5; 4; 99; 7]; prm := [3; 4] |} in
  let its := [([[3; 4]; [4; 5]], [(0, {| o_trials := [3; 1]; o_raises := false |});
                                  (1, {| o_trials := [4; 6]; o_raises := false |})])] in
  exists tr fin,
    wf ex_grid (length (pts st)) /\ optimize Nat.leb ex_grid st [0; 0; 0; 0] its = (tr, fin, [1; 4; 11; 7]) /\
    completed tr = true /\ map snd tr = [Measured 115; Probed; Probed; Kept 27 23; RolledBack 23 25; Measured 23] /\
    pts fin = [1; 4; 11; 7].
Proof.
  eexists. eexists. split; [apply wfb_wf; reflexivity|].
  split; [vm_compute; reflexivity|]. split; [reflexivity|]. split; reflexivity.
Qed.

(** an improvement that is kept is a strict one, and the state kept is the minimiser's LAST trial *)
Definition C13_kept_stmt : Prop :=
  forall (X P V : Type) (leb : V -> V -> bool) (g : grid X P V) cid (st st' : state X P) o q0 q1,
    optimize_clamp leb g cid st o = (st', Kept q0 q1) ->
    g_gq g (pts st) = Some q0 /\ g_gq g (pts st') = Some q1 /\ leb q0 q1 = false /\
    (st' = st \/ exists c x, nth_error (g_clamps g) cid = Some c /\ In x (o_trials o) /\
                            x = last (o_trials o) x /\ st' = mv g c cid st x).

(** ** frame *)
(** A point that is neither the junction nor a link follower of a clamp taking part in the run keeps
    its value - whatever happens, including runs that end in an exception. *)
Definition C13_frame_stmt : Prop :=
  forall (X P V : Type) (leb : V -> V -> bool) (g : grid X P V) (i : nat) evs (st : state X P) tr fin,
    run_events leb g st evs = (tr, fin) ->
    (forall cid c, In cid (ev_cids evs) -> nth_error (g_clamps g) cid = Some c -> ~ In i (touched g c)) ->
    nth_error (pts fin) i = nth_error (pts st) i.

Definition C13_frame_params_stmt : Prop :=
  forall (X P V : Type) (leb : V -> V -> bool) (g : grid X P V) (k : nat) evs (st : state X P) tr fin,
    run_events leb g st evs = (tr, fin) -> ~ In k (ev_cids evs) ->
    nth_error (prm fin) k = nth_error (prm st) k.

(** ** on the manifold, links *)
(** After a completed run every clamp that took part sits: its junction is at function(params) for
    its current params and every follower at transform(leader) - from ANY entry state. *)
Definition C13_snap_stmt : Prop :=
  forall (X P V : Type) (leb : V -> V -> bool) (g : grid X P V),
    total leb ->
    forall evs (st : state X P) tr fin,
      wf g (length (pts st)) -> run_events leb g st evs = (tr, fin) -> completed tr = true ->
      forall cid, In cid (ev_cids evs) -> sits g fin cid.

Definition C13_on_manifold_stmt : Prop :=
  forall (X P V : Type) (leb : V -> V -> bool) (g : grid X P V),
    total leb ->
    forall evs (st : state X P) tr fin,
      wf g (length (pts st)) -> run_events leb g st evs = (tr, fin) -> completed tr = true ->
      forall cid, In cid (ev_cids evs) ->
      exists c x, nth_error (g_clamps g) cid = Some c /\ nth_error (prm fin) cid = Some x /\
                  nth_error (pts fin) (c_j c) = Some (c_fun c x).

Definition C13_links_stmt : Prop :=
  forall (X P V : Type) (leb : V -> V -> bool) (g : grid X P V),
    total leb ->
    forall evs (st : state X P) tr fin,
      wf g (length (pts st)) -> run_events leb g st evs = (tr, fin) -> completed tr = true ->
      forall cid c l, In cid (ev_cids evs) -> nth_error (g_clamps g) cid = Some c -> In l (g_links g (c_j c)) ->
      exists p, nth_error (pts fin) (c_j c) = Some p /\ nth_error (pts fin) (l_fol l) = Some (l_tr l p).

(** sitting is never lost, not even by a run that ends in an exception *)
Definition C13_sits_invariant_stmt : Prop :=
  forall (X P V : Type) (leb : V -> V -> bool) (g : grid X P V) evs (st : state X P) tr fin,
    wf g (length (pts st)) -> run_events leb g st evs = (tr, fin) -> inv g st -> inv g fin.

(** the final parameters are initial parameters or trial points of the minimiser: any predicate
    (e.g. "inside the bounds") true of those is true of the result *)
Definition C13_bounds_stmt : Prop :=
  forall (X P V : Type) (leb : V -> V -> bool) (B : X -> Prop) (g : grid X P V) evs (st : state X P) tr fin,
    run_events leb g st evs = (tr, fin) -> completed tr = true ->
    Forall B (prm st) -> (forall e x, In e evs -> In x (opt_trials e) -> B x) -> Forall B (prm fin).

(** ** rollback *)
(** Whenever optimize_clamp does not keep an improvement (Rollback, Skip, or an exception that
    escapes), the complete state - every point, every parameter - equals the state on entry. *)
Definition C13_rollback_stmt : Prop :=
  forall (X P V : Type) (leb : V -> V -> bool) (g : grid X P V) cid (st : state X P) o (st' : state X P) oc,
    optimize_clamp leb g cid st o = (st', oc) -> sits g st cid ->
    (forall q0 q1, oc <> Kept q0 q1) -> st' = st.

Definition C13_sensitivity_restores_stmt : Prop :=
  forall (X P V : Type) (g : grid X P V) cid (st : state X P) evals (st' : state X P) oc,
    probe g cid st evals = (st', oc) -> sits g st cid -> oc = Probed -> st' = st.

(** ** backport *)
Definition C13_backport_mesh_stmt : Prop :=
  forall (X P V : Type) (leb : V -> V -> bool) (g : grid X P V) its (st : state X P) mesh tr fin mesh',
    optimize leb g st mesh its = (tr, fin, mesh') ->
    (completed tr = true -> mesh' = pts fin) /\ (completed tr = false -> mesh' = mesh).

Definition C13_backport_sketch_stmt : Prop :=
  forall (P : Type) (quads : list (list nat)) (p : list P),
    (forall i, In i (concat quads) -> sketch_position quads (sketch_update quads p) i = nth_error p i) /\
    (forall f quad k i, nth_error quads f = Some quad -> nth_error quad k = Some i ->
       exists face, nth_error (sketch_update quads p) f = Some face /\ nth_error face k = Some (nth_error p i)).

(** ** quality in R; necessity of the hypothesis; satisfiability *)
Definition C13_no_worse_real_stmt : Prop :=
  forall (X P : Type) (g : grid X P R) (evs : list (event X)) (st : state X P) tr fin q,
    wf g (length (pts st)) -> inv g st ->
    run_events Rleb g st evs = (tr, fin) -> completed tr = true ->
    g_gq g (pts st) = Some q ->
    exists q', g_gq g (pts fin) = Some q' /\ (q' <= q)%R.

Definition C13_no_worse_real_strict_stmt : Prop :=
  forall (X P : Type) (g : grid X P R) (evs : list (event X)) (st : state X P) tr fin q,
    wf g (length (pts st)) -> inv g st ->
    run_events Rltb g st evs = (tr, fin) -> completed tr = true ->
    g_gq g (pts st) = Some q ->
    exists q', g_gq g (pts fin) = Some q' /\ (q' <= q)%R.

(** the two rollback tests accepted by the correspondence (Model/C13_Cases.check_case: the code's
    [Qle_bool]; at exact ties also [Qlt_bool]) satisfy the hypotheses of the theorems above *)
Definition C13_correspondence_tests_covered_stmt : Prop :=
  total Qle_bool /\ transitive Qle_bool /\ reflexive_le Qle_bool /\
  keeps_no_worse Qle_bool Qle_bool /\ keeps_no_worse Qlt_bool Qle_bool.

(** [C13_no_worse_stmt] without "every clamp sits on entry": false (a rollback moves the junction to
    function(initial params), which is not where it was) *)
Definition C13_no_worse_unconditional_stmt : Prop :=
  forall (X P V : Type) (leb : V -> V -> bool) (g : grid X P V),
    total leb -> transitive leb ->
    forall (evs : list (event X)) (st : state X P) tr fin q,
      wf g (length (pts st)) ->
      run_events leb g st evs = (tr, fin) -> completed tr = true ->
      g_gq g (pts st) = Some q ->
      exists q', g_gq g (pts fin) = Some q' /\ leb q' q = true.

(** the hypotheses used above (total, transitive, wf, inv, completed) hold together on a concrete
    run in which an improvement is kept, one is rolled back and one minimisation is skipped *)
Example C13_hypotheses_satisfiable :
  exists tr fin,
    total Nat.leb /\ transitive Nat.leb /\ wf ex_grid (length (pts ex_st)) /\ inv ex_grid ex_st /\
    run_events Nat.leb ex_grid ex_st ex_events = (tr, fin) /\ completed tr = true /\
    map snd tr = [Measured 27; Probed; Probed; Kept 27 23; RolledBack 23 25; Skipped; Measured 23] /\
    fin = {| pts := [1; 4; 11; 7]; prm := [1; 4] |}.
Proof. exact hypotheses_satisfiable. Qed.

(** ** clamps made from a vertex' live position array, optimize() called again (Model/C13_Alias.v) *)
(** The library's examples clamp a vertex with LineClamp(v.position, v.position, v.position + d, bounds);
    backport() moves vertices in place.  [copy = true]: the clamp holds its own copy of the defining point
    (np.array, the code); [copy = false]: it holds the caller's array (np.asarray).  Heap cell [r] is the
    vertex, the line has direction 1, [os] are the minimisers of successive optimize() calls (arbitrary
    functions of the current heap and clamp), [MA.respectsb]: each stayed inside the clamp's bounds.
    After EACH call: the vertex is at p1 + t for the clamp's current parameter t with lo <= t <= hi, where p1 is
    its position at clamp creation (on the line described then, inside the bounds counted from there);
    clamp.function(clamp.params) is the vertex; no other cell has changed. *)
From Coq Require Import ZArith.
From CB Require Model.C13_Alias Proofs.C13_Alias.
Module MA := CB.Model.C13_Alias.
Module PA := CB.Proofs.C13_Alias.

Definition C13_clamp_on_line_stmt (copy : bool) : Prop :=
  forall (os : list MA.oracle) (h : MA.heap) (r : nat) (lo hi : Z),
    r < length h ->
    let c := MA.make_clamp copy h r lo hi in
    MA.respectsb os r h c = true ->
    Forall (fun st : MA.heap * MA.clamp =>
              MA.read (fst st) r = (MA.read h r + MA.c_t (snd st))%Z /\
              (lo <= MA.c_t (snd st) <= hi)%Z /\
              (lo <= MA.read (fst st) r - MA.read h r <= hi)%Z /\
              MA.clamp_pos (fst st) (snd st) = MA.read (fst st) r /\
              length (fst st) = length h /\ (forall r', r' <> r -> MA.read (fst st) r' = MA.read h r'))
           (MA.trace os r h c).

Definition C13_clamp_holds_its_own_copy_stmt : Prop := C13_clamp_on_line_stmt true.

(** its hypotheses hold on a run of five calls (vertex 1 of [7; 10; 20], bounds (0, 3)) *)
Example C13_clamp_on_line_satisfiable :
  let c := MA.make_clamp true MA.mini_heap 1 0 3 in
  let os := [MA.to_hi; MA.to_hi; MA.half_up; MA.to_lo; MA.to_hi] in
  1 < length MA.mini_heap /\ MA.respectsb os 1 MA.mini_heap c = true /\
  map (fun st => MA.read (fst st) 1) (MA.trace os 1 MA.mini_heap c) = [13; 13; 13; 10; 13]%Z /\
  fst (MA.run os 1 MA.mini_heap c) = [7; 13; 20]%Z.
Proof. exact PA.mini_copy. Qed.

(** With the aliased clamp the statement is false: two calls that go to the upper bound 3 put the vertex
    (created at 10) at 13 and then at 16 = 10 + 2 * 3, the clamp's parameter being 3.  In general the vertex
    drifts by every chosen parameter: after a run it is at p1 + (sum of the chosen parameters), whatever the
    bounds; n calls that go to the upper bound: p1 + n * hi. *)
Definition C13_aliased_clamp_refuted_stmt : Prop :=
  ~ C13_clamp_on_line_stmt false /\
  (let c := MA.make_clamp false MA.mini_heap 1 0 3 in
   MA.respectsb [MA.to_hi; MA.to_hi] 1 MA.mini_heap c = true /\
   MA.read (fst (MA.run [MA.to_hi] 1 MA.mini_heap c)) 1 = (10 + 3)%Z /\
   MA.read (fst (MA.run [MA.to_hi; MA.to_hi] 1 MA.mini_heap c)) 1 = (10 + 2 * 3)%Z /\
   MA.c_t (snd (MA.run [MA.to_hi; MA.to_hi] 1 MA.mini_heap c)) = 3%Z) /\
  (forall (os : list MA.oracle) (h : MA.heap) (r : nat) (lo hi : Z),
     r < length h ->
     MA.read (fst (MA.run os r h (MA.make_clamp false h r lo hi))) r
       = (MA.read h r + MA.sumz (MA.chosen os r h (MA.make_clamp false h r lo hi)))%Z) /\
  (forall (n : nat) (h : MA.heap) (r : nat) (lo hi : Z),
     r < length h ->
     MA.read (fst (MA.run (repeat MA.to_hi n) r h (MA.make_clamp false h r lo hi))) r
       = (MA.read h r + Z.of_nat n * hi)%Z).

(** ** theorems *)
Theorem C13_no_worse : C13_no_worse_stmt.
Proof. exact run_events_no_worse. Qed.

Theorem C13_optimize_no_worse : C13_optimize_no_worse_stmt.
Proof. exact optimize_no_worse. Qed.

Theorem C13_no_worse_any_test : C13_no_worse_any_test_stmt.
Proof. intros X P V rb le g. exact (run_events_no_worse_gen X P V rb le g). Qed.

Theorem C13_optimize_any_entry : C13_optimize_any_entry_stmt.
Proof. intros X P V rb le g. exact (optimize_any_entry_gen X P V rb le g). Qed.

Theorem C13_kept : C13_kept_stmt.
Proof. exact optimize_clamp_kept. Qed.

Theorem C13_frame : C13_frame_stmt.
Proof. exact run_events_frame_pts. Qed.

Theorem C13_frame_params : C13_frame_params_stmt.
Proof. exact run_events_frame_prm. Qed.

Theorem C13_snap : C13_snap_stmt.
Proof. exact run_events_establishes. Qed.

Theorem C13_on_manifold : C13_on_manifold_stmt.
Proof. exact run_events_on_manifold. Qed.

Theorem C13_links : C13_links_stmt.
Proof. exact run_events_links. Qed.

Theorem C13_sits_invariant : C13_sits_invariant_stmt.
Proof. exact run_events_inv. Qed.

Theorem C13_bounds : C13_bounds_stmt.
Proof. exact run_events_params. Qed.

Theorem C13_rollback : C13_rollback_stmt.
Proof. exact optimize_clamp_restores. Qed.

Theorem C13_sensitivity_restores : C13_sensitivity_restores_stmt.
Proof. exact probe_restores. Qed.

Theorem C13_backport_mesh : C13_backport_mesh_stmt.
Proof. exact optimize_backport. Qed.

Theorem C13_backport_sketch : C13_backport_sketch_stmt.
Proof. intros P quads p. split; [apply sketch_backport | apply sketch_faces]. Qed.

Theorem C13_no_worse_real : C13_no_worse_real_stmt.
Proof. exact no_worse_real. Qed.

Theorem C13_no_worse_real_strict : C13_no_worse_real_strict_stmt.
Proof. exact no_worse_real_strict. Qed.

Theorem C13_correspondence_tests_covered : C13_correspondence_tests_covered_stmt.
Proof.
  exact (conj Qle_bool_total (conj Qle_bool_trans (conj Qle_bool_refl (conj Qle_bool_keeps Qlt_bool_keeps)))).
Qed.

Theorem C13_no_worse_without_sits_refuted : ~ C13_no_worse_unconditional_stmt.
Proof. exact no_worse_unconditional_refuted. Qed.

Theorem C13_clamp_holds_its_own_copy : C13_clamp_holds_its_own_copy_stmt.
Proof. exact PA.copy_on_line. Qed.

Theorem C13_aliased_clamp_refuted : C13_aliased_clamp_refuted_stmt.
Proof.
  exact (conj (proj1 PA.aliased_on_line_refuted) (conj (proj2 PA.aliased_on_line_refuted)
          (conj PA.ref_drift_made PA.ref_drift_to_hi))).
Qed.

Print Assumptions C13_no_worse.
Print Assumptions C13_optimize_no_worse.
Print Assumptions C13_no_worse_any_test.
Print Assumptions C13_optimize_any_entry.
Print Assumptions C13_kept.
Print Assumptions C13_frame.
Print Assumptions C13_frame_params.
Print Assumptions C13_snap.
Print Assumptions C13_on_manifold.
Print Assumptions C13_links.
Print Assumptions C13_sits_invariant.
Print Assumptions C13_bounds.
Print Assumptions C13_rollback.
Print Assumptions C13_sensitivity_restores.
Print Assumptions C13_backport_mesh.
Print Assumptions C13_backport_sketch.
Print Assumptions C13_no_worse_real.
Print Assumptions C13_no_worse_real_strict.
Print Assumptions C13_correspondence_tests_covered.
Print Assumptions C13_no_worse_without_sits_refuted.
Print Assumptions C13_clamp_holds_its_own_copy.
Print Assumptions C13_aliased_clamp_refuted.
