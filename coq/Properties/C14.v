(** C14 - The block quality measure depends only on the cell's shape.

    [hex_T], [hex_E], [quad_S], [quad_E], [zk] (Gen/C14/Tables.v) are the side tables, the corner
    pairs whose distance is measured, and the guard / q_scale constants of the working tree of
    /repo, obtained behaviourally in this run.  The symbolic theorems hold for every table and all
    constants; the finite facts they need about the tables are decided here by computation. *)
From Coq Require Import Reals List Bool Arith Lra Lia.
From CB Require Import Base.Hex Base.Vec3 Model.C14_Quality.
From CB Require Import Proofs.C14_Algebra Proofs.C14_Rigid Proofs.C14_Scale Proofs.C14_Renumber Proofs.C14_Stretch.
From CB Require Import Gen.C14.Tables.
Import ListNotations.

(** the constants of the code as real numbers *)
Definition K : consts := rk zk.

(** ** statements *)

(** every side of the reference hexahedron occurs in the code's side table as an inward-pointing
    corner cycle (so that the triangle normals point towards the cell centre), the table has six
    entries; the measured pairs are exactly the twelve edges; the quadrilateral's sides are the
    segments (i, i+1) and its measured pairs the four edges *)
Definition C14_tables_stmt : Prop :=
  length hex_T = 6%nat
  /\ (forall s, In s sides -> exists i, (i < 6)%nat /\ is_inward s (nth i hex_T []) = true)
  /\ length hex_E = 12%nat
  /\ (forall e, In e hex_E -> is_edge (fst e) (snd e) = true)
  /\ NoDup (map pcode hex_E)
  /\ quad_S = [[0; 1]; [1; 2]; [2; 3]; [3; 0]]%nat
  /\ edges_same quad_E ref_QE = true.

(** rigid motions: exact, for every guard, table and weight *)
Definition C14_rigid_stmt : Prop :=
  forall (M : mat) (t : vec), is_rotation M ->
  forall k T E P nb,
    hexq k T E (fun i => rigid M t (P i)) (fun i => option_map (rigid M t) (nb i)) = hexq k T E P nb
    /\ quadq k E (fun i => rigid M t (P i)) (fun i => option_map (rigid M t) (nb i)) = quadq k E P nb.

(** uniform scaling: the exact law *)
Definition C14_scale_law_stmt : Prop :=
  forall s, (0 < s)%R -> forall k ea el T E P nb,
    hexq (with_eps k ea el) T E (fun i => vscale s (P i)) (fun i => option_map (vscale s) (nb i))
      = hexq (with_eps k (ea / (s * s)) (el / s)) T E P nb
    /\ quadq (with_eps k ea el) E (fun i => vscale s (P i)) (fun i => option_map (vscale s) (nb i))
      = quadq (with_eps k (ea / (s * s)) (el / s)) E P nb.

(** uniform scaling leaves the value of the code's measure unchanged for sizes above the guard *)
Definition C14_scale_stmt : Prop :=
  forall s, (0 < s)%R -> forall P nb,
    (hex_above (eps_a K) (eps_l K) hex_T hex_E P ->
     hex_above (eps_a K) (eps_l K) hex_T hex_E (fun i => vscale s (P i)) ->
     hexq K hex_T hex_E (fun i => vscale s (P i)) (fun i => option_map (vscale s) (nb i)) = hexq K hex_T hex_E P nb)
    /\ (quad_above (eps_l K) quad_E P -> quad_above (eps_l K) quad_E (fun i => vscale s (P i)) ->
        quadq K quad_E (fun i => vscale s (P i)) (fun i => option_map (vscale s) (nb i)) = quadq K quad_E P nb).

(** renumbering by any of the 24 rotations of the hexahedron (all weights and guards) *)
Definition C14_renumber_stmt : Prop :=
  forall p, In p rot24 -> forall k P nb,
    hexq k hex_T hex_E (renum P p) (renum_nb hex_T nb p) = hexq k hex_T hex_E P nb.

(** quadrilateral: full statement - every cyclic renumbering of a planar convex quadrilateral *)
Definition planar_convex (P : nat -> vec) : Prop :=
  exists l1 l2 l3, (0 < l1 /\ 0 < l2 /\ 0 < l3)%R /\
    let n0 := cross (vsub (P 1%nat) (P 0%nat)) (vsub (P 3%nat) (P 0%nat)) in
    cross (vsub (P 2%nat) (P 1%nat)) (vsub (P 0%nat) (P 1%nat)) = vscale l1 n0 /\
    cross (vsub (P 3%nat) (P 2%nat)) (vsub (P 1%nat) (P 2%nat)) = vscale l2 n0 /\
    cross (vsub (P 0%nat) (P 3%nat)) (vsub (P 2%nat) (P 3%nat)) = vscale l3 n0.
Definition C14_renumber_quad_stmt : Prop :=
  forall j, (j < 4)%nat -> forall k P nb, planar_convex P ->
    let p := map (fun i => (i + j) mod 4)%nat [0; 1; 2; 3]%nat in
    quadq k quad_E (renum P p) (fun i => nb (papply p i)) = quadq k quad_E P nb.
(** the generator of the cyclic group alone, from the hypothesis on the normals at corners 0, 1 only *)
Definition C14_renumber_quad_step_stmt : Prop :=
  forall k P nb lam, (0 < lam)%R ->
    cross (vsub (P 2%nat) (P 1%nat)) (vsub (P 0%nat) (P 1%nat))
      = vscale lam (cross (vsub (P 1%nat) (P 0%nat)) (vsub (P 3%nat) (P 0%nat))) ->
    quadq k quad_E (renum P quad_shift) (fun i => nb (papply quad_shift i)) = quadq k quad_E P nb.
(** [planar_convex] does not depend on which corner is called 0: it says that all four corner
    normals are positive multiples of one common vector, and it is preserved by the generator *)
Definition C14_planar_convex_sym_stmt : Prop :=
  forall P, (planar_convex P <-> pconvex_sym P) /\ (planar_convex P -> planar_convex (renum P quad_shift)).

(** stretching the unit cube: the three directions agree, the value never drops below the cube's
    and is non-decreasing in the stretch factor *)
Definition C14_stretch_stmt : Prop :=
  forall a a', (1 <= a <= a')%R ->
    let q := fun P => hexq K hex_T hex_E P none_nb in
    q (box a 1 1) = q (box 1 a 1) /\ q (box 1 a 1) = q (box 1 1 a)
    /\ (q (box 1 1 1) <= q (box a 1 1) <= q (box a' 1 1))%R.

(** ** finite checks over the regenerated tables *)
Definition tables_okb : bool :=
  (length hex_T =? 6)
  && forallb (fun s => existsb (fun i => is_inward s (nth i hex_T [])) (seq 0 6)) sides
  && (length hex_E =? 12)
  && forallb (fun e => is_edge (fst e) (snd e)) hex_E
  && nodupb (map pcode hex_E).

Theorem C14_tables : C14_tables_stmt.
Proof.
  assert (H : tables_okb = true) by (vm_compute; reflexivity).
  unfold tables_okb in H.
  apply andb_true_iff in H; destruct H as [H H5].
  apply andb_true_iff in H; destruct H as [H H4].
  apply andb_true_iff in H; destruct H as [H H3].
  apply andb_true_iff in H; destruct H as [H1 H2].
  refine (conj _ (conj _ (conj _ (conj _ (conj _ (conj _ _)))))).
  - apply Nat.eqb_eq. exact H1.
  - intros s Hs. rewrite forallb_forall in H2. specialize (H2 s Hs).
    apply existsb_exists in H2. destruct H2 as [i [Hi Hin]]. exists i. split; [apply in_seq in Hi; lia | exact Hin].
  - apply Nat.eqb_eq. exact H3.
  - intros e He. rewrite forallb_forall in H4. apply H4. exact He.
  - apply c14_nodupb_NoDup. exact H5.
  - vm_compute. reflexivity.
  - vm_compute. reflexivity.
Qed.

Theorem C14_rigid : C14_rigid_stmt.
Proof. intros M t HM k T E P nb. split; [apply hexq_rigid | apply quadq_rigid]; exact HM. Qed.

Theorem C14_scale_law : C14_scale_law_stmt.
Proof. intros s Hs k ea el T E P nb. split; [apply hexq_scale_law | apply quadq_scale_law]; exact Hs. Qed.

(** the guard of the code enters as [max norm eps] *)
Lemma K_guard_max : additive K = false.
Proof. vm_compute. reflexivity. Qed.

Theorem C14_scale : C14_scale_stmt.
Proof.
  intros s Hs P nb. split; intros H1 H2.
  - apply hexq_scale_above; [exact Hs | exact K_guard_max | exact H1 | exact H2].
  - apply quadq_scale_above; [exact Hs | exact K_guard_max | exact H1 | exact H2].
Qed.

Theorem C14_renumber : C14_renumber_stmt.
Proof.
  assert (H : forallb (renum_ok hex_T hex_E) rot24 = true) by (vm_compute; reflexivity).
  rewrite forallb_forall in H. intros p Hp k P nb. apply hexq_renumber. apply H. exact Hp.
Qed.

Theorem C14_renumber_quad : C14_renumber_quad_stmt.
Proof.
  assert (H : forallb (fun i => edges_ok quad_E (cyc i)) [0; 1; 2; 3]%nat = true) by (vm_compute; reflexivity).
  intros j Hj k P nb HP. exact (quadq_renumber_cyclic k quad_E P nb j Hj H HP).
Qed.

Theorem C14_renumber_quad_step : C14_renumber_quad_step_stmt.
Proof.
  assert (H : edges_ok quad_E quad_shift = true) by (vm_compute; reflexivity).
  intros k P nb lam Hl Hn. apply (quadq_renumber_shift k quad_E P nb lam H Hl Hn).
Qed.

Theorem C14_planar_convex_sym : C14_planar_convex_sym_stmt.
Proof. intro P. split; [exact (pconvex_iff_sym P) | exact (pconvex_shift P)]. Qed.

(** the hypothesis of [C14_renumber_quad] is satisfiable (unit square; a trapezoid that is no
    parallelogram) and excludes folded quadrilaterals *)
Example planar_convex_square : planar_convex sq_pts.
Proof. exact pconvex_square. Qed.
Example planar_convex_trapezoid : planar_convex trapezoid_pts.
Proof. exact pconvex_trapezoid. Qed.
Example C14_renumber_quad_trapezoid : forall k nb,
  quadq k quad_E (renum trapezoid_pts [2; 3; 0; 1]%nat) (fun i => nb (papply [2; 3; 0; 1]%nat i))
  = quadq k quad_E trapezoid_pts nb.
Proof. intros k nb. exact (C14_renumber_quad 2%nat ltac:(lia) k trapezoid_pts nb pconvex_trapezoid). Qed.

Lemma K_eps : (eps_a K <= 1 / 2 /\ 0 <= eps_l K <= 1)%R.
Proof. cbv [K rk zk eps_a eps_l rd z_ea z_el fst snd dy powerRZ]. simpl pow. repeat split; lra. Qed.
Lemma K_w_as : exists b e f, w_as K = (b, e, f) /\ (1 <= b /\ 0 <= e /\ 0 <= f)%R.
Proof.
  cbv [K rk zk w_as rw rd z_as fst snd]. eexists _, _, _. split; [reflexivity|].
  cbv [dy powerRZ]. simpl pow. repeat split; lra.
Qed.

Theorem C14_stretch : C14_stretch_stmt.
Proof.
  (* the tabulated side table is the reference one up to the order of the sides and the starting
     corner of each side cycle (no neighbours: the value does not depend on either) *)
  assert (HT : sides_same hex_T ref_T = true) by (vm_compute; reflexivity).
  assert (HE : edges_same hex_E ref_E = true) by (vm_compute; reflexivity).
  destruct K_eps as [Hea Hel]. destruct K_w_as as (b & e & f & Hw & Hb & He & Hf).
  assert (Q : forall x y z, (1 <= x)%R -> (1 <= y)%R -> (1 <= z)%R ->
              hexq K hex_T hex_E (box x y z) none_nb = hexq (with_eps K 0 0) ref_T ref_E (box x y z) none_nb).
  { intros x y z Hx Hy Hz. rewrite (hexq_same_sides K hex_T ref_T hex_E _ HT), (hexq_same_edges K ref_T hex_E ref_E _ _ HE).
    apply hexq_box_guarded; auto using K_guard_max. }
  intros a a' [Ha Ha'] q. unfold q.
  assert (H1 : (1 <= 1)%R) by lra. assert (Ha1 : (1 <= a')%R) by lra.
  rewrite !Q by assumption.
  rewrite (hexq_stretch_x K a Ha), (hexq_stretch_y K a Ha), (hexq_stretch_z K a Ha), (hexq_stretch_x K a' Ha1), hexq_cube.
  rewrite Hw. repeat split.
  - rewrite <- (qs_0 (b, e, f)). replace 0%R with (ln 1 / ln 10)%R at 2 by (rewrite ln_1; lra).
    rewrite qs_0. replace 0%R with (qs (b, e, f) (ln 1 / ln 10)) by (rewrite ln_1; unfold Rdiv; rewrite Rmult_0_l; apply qs_0).
    apply stretch_monotone; try assumption. lra.
  - apply stretch_monotone; try assumption. lra.
Qed.

Print Assumptions C14_tables.
Print Assumptions C14_rigid.
Print Assumptions C14_scale_law.
Print Assumptions C14_scale.
Print Assumptions C14_renumber.
Print Assumptions C14_renumber_quad.
Print Assumptions C14_renumber_quad_step.
Print Assumptions C14_planar_convex_sym.
Print Assumptions C14_stretch.
