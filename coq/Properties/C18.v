(** C18 - Finders are exact; viewpoint re-orientation canonicalises block numbering.

    Models: Model/C18_Finder.v (finders), Model/C18_Reorient.v (re-orienter), specification of the
    end disks: Model/C18_RoundSpec.v, reference hexahedron: Base/Hex.v.
    Gen/C18/Tables.v holds what RoundSolidFinder returned on the canonical round shapes and what
    ViewpointReorienter made of the 48 numberings of the unit cube in this run. *)
From Coq Require Import List Bool Arith ZArith Reals Permutation Lra Lia.
From CB Require Import Base.Hex Base.Vec3.
From CB Require Import Model.C18_Finder Model.C18_RoundSpec Model.C18_Reorient.
From CB Require Import Proofs.C18_Finder Proofs.C18_Reorient Proofs.C18_Exact Proofs.C18_ExactAlign.
From CB Require Import Gen.C18.Tables.
From CB Require Import Gen.C18.Source Proofs.C18_SourceEq.
Import ListNotations.

(** * 1. Geometric finders *)
Open Scope R_scope.

(** the sphere finder returns exactly the vertices at distance < radius (TOL when no radius is given) *)
Definition C18_sphere_stmt : Prop :=
  forall (tol : R) (vs : list vec) (p : vec) (radius : option R) (v : vec),
    In v (find_in_sphere tol vs p radius) <->
    In v vs /\ dist v p < match radius with Some r => r | None => tol end.

(** the plane finder returns exactly the vertices whose distance |(v-o).n| / |n| to the plane is < TOL
    (in particular the special treatment of points coincident with the origin changes nothing) *)
Definition C18_plane_stmt : Prop :=
  forall (tol : R) (vs : list vec) (o n v : vec), n <> vzero ->
    (In v (find_on_plane tol vs o n) <-> In v vs /\ Rabs (dot (vsub v o) n) / norm n < tol).

(** ... so the result depends on the plane only: not on the length or sign of the normal, nor on the
    point of the plane given as origin *)
Definition C18_plane_invariant_stmt : Prop :=
  forall (tol : R) (vs : list vec) (o o' n v : vec) (k : R), n <> vzero -> k <> 0 -> dot (vsub o' o) n = 0 ->
    (In v (find_on_plane tol vs o' (vscale k n)) <-> In v (find_on_plane tol vs o n)).

(** on binary64 inputs - integer mantissas at a unit u > 0 (positions, radius, TOL) resp. un > 0 (the
    plane normal) - the real-valued models, square roots and divisions included, are decided by integer
    arithmetic; this is what the correspondence evaluates on the implementation's inputs *)
Definition C18_finders_decided_stmt : Prop :=
  (forall (u : R) (p : zvec) (r : Z) (v : zvec), 0 < u ->
     in_sphere_b (zR u p) (IZR r * u) (zR u v) = z_in_sphere p r v)
  /\ (forall (u un : R) (T : Z) (o n v : zvec), 0 < u -> 0 < un -> (0 < T)%Z -> (0 < zdot n n)%Z ->
     is_point_on_plane (IZR T * u) (zR u o) (zR un n) (zR u v) = z_on_plane T o n v).

(** * 2. Round-shape finder *)
Open Scope Z_scope.

(** the model of the round finder is exact: index i is returned by find_core iff vertex i is within TOL of
    a point of a core face; find_shell is the set difference shell - core.  Positions are integer
    mantissas at a common unit, TOL = T units *)
Definition C18_round_model_exact_stmt : Prop :=
  forall (T : Z) (vs : list zvec) (core shell : list (list zvec)) (i : nat),
    (In i (find_core T vs core) <->
       exists v, nth_error vs i = Some v /\ exists f p, In f core /\ In p f /\ zdist2 v p < T * T)
    /\ (In i (find_shell T vs core shell) <-> In i (find_core T vs shell) /\ ~ In i (find_core T vs core)).

(** ... and the integer comparison is the comparison of the real distance with the real tolerance *)
Definition C18_round_near_real_stmt : Prop :=
  forall (u : R) (T : Z) (p v : zvec), (0 < u)%R -> 0 < T ->
    (zdist2 v p < T * T <-> (dist (zR u v) (zR u p) < IZR T * u)%R).

(** for every tabulated round shape and end: the model returns what the implementation returned, and
    that is exactly the set of inner vertices (core) / rim vertices (shell) of the end disk; the
    tolerance of the row is the library's TOL = tol_m * 2^-tol_e *)
Definition C18_core_shell_stmt : Prop :=
  (forall c, In c round_tab ->
     find_core (rc_tol c) (rc_verts c) (rc_core c) = rc_found_core c
     /\ find_shell (rc_tol c) (rc_verts c) (rc_core c) (rc_shell c) = rc_found_shell c
     /\ select_idx (is_inner (rc_center c) (rc_normal c) (rc_radius c)) (rc_verts c) 0 = rc_found_core c
     /\ select_idx (is_rim (rc_center c) (rc_normal c) (rc_radius c)) (rc_verts c) 0 = rc_found_shell c
     /\ (3 <= length (rc_found_shell c))%nat
     /\ 0 < rc_tol c /\ tol_e <= rc_exp c /\ rc_tol c = tol_m * 2 ^ (rc_exp c - tol_e))
  /\ length round_tab = 12%nat.

(** * 3. Viewpoint re-orienter *)
Open Scope nat_scope.

(** the literal table of [reorient]: new corner k is the common point of exactly the three sides that
    meet in corner k of the blockMesh hexahedron *)
Definition C18_numbering_table_stmt : Prop :=
  forall k a b c, k < 8 -> nth k corner_sides (Bottom, Bottom, Bottom) = (a, b, c) ->
    forall c', c' < 8 -> (on_side a c' = true /\ on_side b c' = true /\ on_side c c' = true <-> c' = k).

(** the real code on the unit cube, all 48 initial numberings: corner k ends up at xyz(k) *)
Definition C18_cube_table_stmt : Prop :=
  (forall p out, In (p, out) cube_tab -> out = Some xyz_table)
  /\ (forall p, In p sym48 -> exists q out, In (q, out) cube_tab /\ perm_eqb p q = true)
  /\ length cube_tab = 48.

(** canonical numbering: if the six quads are the six geometric faces of the hexahedron whose corner c is
    input point g(c), the new numbering is g - whatever the order of triangles and of points was *)
Definition C18_canonical_stmt : Prop :=
  forall (g : nat -> nat) (Q : side -> list nat), geometric g Q -> assemble Q = Some (map g corners).

(** same eight points: the result of the model, run on a hull and an order oracle for which the grouping
    is geometric, is a permutation of the input indices and it is the geometric labelling *)
Definition C18_same_points_stmt : Prop :=
  forall (hull : list tri) (rank : side -> list nat) (gl : list nat) qs,
    length hull = 12 ->
    group_loop hull rank normals_order (seq 0 12) = Some qs ->
    geometricb gl (quad_of qs) = true ->
    reorient hull rank = Some gl /\ Permutation gl (seq 0 8).

(** independence of the initial numbering: two runs on the same geometric hexahedron [G] (corner ->
    position), given under two numberings (index -> position [pos1], [pos2]), yield the same positions *)
Definition C18_numbering_independent_stmt : Prop :=
  forall (A : Type) (G : nat -> A) (pos1 pos2 : nat -> A) (g1 g2 : nat -> nat) (Q1 Q2 : side -> list nat),
    geometric g1 Q1 -> geometric g2 Q2 ->
    (forall c, c < 8 -> pos1 (g1 c) = G c) -> (forall c, c < 8 -> pos2 (g2 c) = G c) ->
    option_map (map pos1) (assemble Q1) = Some (map G corners)
    /\ option_map (map pos1) (assemble Q1) = option_map (map pos2) (assemble Q2).

Open Scope R_scope.

(** the observer frame: front -> observer, top -> ceiling (made perpendicular), left = front x top.
    For observer and ceiling point in general position it is orthonormal, x = left->right,
    y = front->back, z = bottom->top is right-handed, front points at the observer and top has a
    positive component towards the ceiling point *)
Definition C18_right_handed_stmt : Prop :=
  forall observer ceiling center : vec,
    0 < norm2 (cross (vsub observer center) (vsub ceiling center)) ->
    let N := frame_normal observer ceiling center in
    orthoframe N
    /\ triple (N Right) (N Back) (N Top) = 1
    /\ dot (N Front) (vsub observer center) = norm (vsub observer center)
    /\ 0 < dot (N Top) (vsub ceiling center).

(** the order oracle: when the integer check [rank_check] succeeds on the mantissas of a case, then in
    every round of the loop of [reorient] the two triangles the model takes have strictly larger
    real-valued sort keys ([alignment], with its three normalisations) than every other remaining triangle -
    so they are the two Python's sorted(...)[-2:] returns *)
Definition C18_alignment_order_stmt : Prop :=
  forall (u : R) (obs cei : zvec) (ps : list zvec) (hull : list tri) (rank : side -> list nat), 0 < u ->
    rank_check obs cei ps hull rank = true ->
    rank_consistentP (key_of u obs cei ps hull) rank normals_order (seq 0 12).

(** the alignment heuristic groups the right triangles (full statement, NOT proved as a whole):
    [nrm t] is the oriented unit normal of hull triangle t, [face_of t] the geometric face it lies on *)
Definition C18_grouping_stmt : Prop :=
  forall (N : side -> vec) (nrm : nat -> vec) (face_of : nat -> side)
         (hull : list tri) (rank : side -> list nat) (g : nat -> nat),
    orthoframe N ->
    length hull = 12%nat ->
    (forall c c', (c < 8)%nat -> (c' < 8)%nat -> g c = g c' -> c = c') ->
    (forall t, (t < 12)%nat -> norm2 (nrm t) = 1 /\ half_sqrt2 < dot (nrm t) (N (face_of t))) ->
    (forall s, exists t1 t2, t1 <> t2 /\ (t1 < 12)%nat /\ (t2 < 12)%nat /\ face_of t1 = s /\ face_of t2 = s
        /\ (forall t, (t < 12)%nat -> face_of t = s -> t = t1 \/ t = t2)
        /\ NoDup (nth t1 hull []) /\ NoDup (nth t2 hull [])
        /\ length (nth t1 hull []) = 3%nat /\ length (nth t2 hull []) = 3%nat
        /\ length (common_points (nth t1 hull []) (nth t2 hull [])) = 2%nat
        /\ (forall x, In x (nth t1 hull []) \/ In x (nth t2 hull []) <->
                      exists c, (c < 8)%nat /\ on_side s c = true /\ x = g c)) ->
    (forall s, Permutation (rank s) (seq 0 12)
        /\ forall i j, (i < j < 12)%nat ->
             dot (nrm (nth i (rank s) 0%nat)) (N s) <= dot (nrm (nth j (rank s) 0%nat)) (N s)) ->
    exists qs, group_loop hull rank normals_order (seq 0 12) = Some qs /\ geometric g (quad_of qs).

(** proved part: under the 45-degree condition every triangle is ranked strictly below sqrt2/2 for every
    direction but that of its own face, where it is above - so the two triangles of a face are the top
    two for that face's direction *)
Definition C18_grouping_partial_stmt : Prop :=
  forall (N : side -> vec) (n : vec) (s s' : side),
    orthoframe N -> norm2 n = 1 -> s <> s' -> half_sqrt2 < dot n (N s) -> dot n (N s') < half_sqrt2.

(** * 4. The model of the geometric finders is the source

    Gen/C18/Source.v: the translation (harness/translate_np.py, regenerated from the working tree on every run, fail
    closed) of functions.point_to_plane_distance / is_point_on_plane / unit_vector / norm and of the WHOLE methods
    FinderBase._find_by_position (loop included), GeometricFinder.find_in_sphere, find_on_plane.  [Some y] = read in
    exact real arithmetic the call returns y; [None] = no real-number reading (the zero normal: numpy's nan).
    The translated functions equal the functions of Model/C18_Finder.v for all arguments (plane: for every non-zero
    normal, the hypothesis of [C18_plane]); hence [C18_sphere] and [C18_plane] are theorems about the translated
    source (last two conjuncts). *)
Open Scope R_scope.
Definition C18_source_is_model_stmt : Prop :=
  (forall tol o n p, n <> vzero ->
      src_point_to_plane_distance tol o n p = Some (point_to_plane_distance tol o n p)
      /\ src_is_point_on_plane tol o n p = Some (is_point_on_plane tol o n p))
  /\ (forall tol o p, src_is_point_on_plane tol o vzero p = None)
  /\ (forall tol vs p r,
        src_find_by_position tol vs p r = Some (find_by_position tol vs p (Some r))
        /\ src_find_in_sphere tol vs p r = Some (find_in_sphere tol vs p (Some r)))
  /\ (forall tol vs p,
        src_find_by_position_default tol vs p = Some (find_by_position tol vs p None)
        /\ src_find_in_sphere_default tol vs p = Some (find_in_sphere tol vs p None))
  /\ (forall tol vs o n, n <> vzero -> src_find_on_plane tol vs o n = Some (find_on_plane tol vs o n))
  /\ (forall tol vs p r v, exists l, src_find_in_sphere tol vs p r = Some l /\ (In v l <-> In v vs /\ dist v p < r))
  /\ (forall tol vs p v, exists l, src_find_in_sphere_default tol vs p = Some l /\ (In v l <-> In v vs /\ dist v p < tol))
  /\ (forall tol vs o n v, n <> vzero ->
        exists l, src_find_on_plane tol vs o n = Some l /\ (In v l <-> In v vs /\ Rabs (dot (vsub v o) n) / norm n < tol)).

(** * Proofs (everything that does not depend on the tables is in Proofs/C18_*.v) *)

Theorem C18_sphere : C18_sphere_stmt.
Proof. exact find_by_position_spec. Qed.

Theorem C18_plane : C18_plane_stmt.
Proof. exact find_on_plane_exact. Qed.

Theorem C18_plane_invariant : C18_plane_invariant_stmt.
Proof. exact (fun tol vs o o' n v k => find_on_plane_invariant tol vs o o' n v k). Qed.

Theorem C18_finders_decided : C18_finders_decided_stmt.
Proof. split; [exact z_in_sphere_exact|exact z_on_plane_exact]. Qed.

Theorem C18_round_model_exact : C18_round_model_exact_stmt.
Proof. exact round_model_exact. Qed.

Theorem C18_round_near_real : C18_round_near_real_stmt.
Proof. exact znear_real. Qed.

Theorem C18_core_shell : C18_core_shell_stmt.
Proof.
  split; [|vm_compute; reflexivity].
  assert (H : forallb (rc_row_ok tol_m tol_e) round_tab = true) by (vm_compute; reflexivity).
  intros c Hc. exact (rc_row_ok_sound tol_m tol_e c (forallb_In _ _ H c Hc)).
Qed.

Theorem C18_numbering_table : C18_numbering_table_stmt.
Proof. exact numbering_table. Qed.

Definition xyz_list_eqb (a b : list (Z * Z * Z)) : bool :=
  (length a =? length b)%nat
  && forallb (fun xy => let '(x1, y1, z1) := fst xy in let '(x2, y2, z2) := snd xy in
                        Z.eqb x1 x2 && Z.eqb y1 y2 && Z.eqb z1 z2) (combine a b).

Lemma xyz_list_eqb_eq a : forall b, xyz_list_eqb a b = true -> a = b.
Proof.
  unfold xyz_list_eqb. induction a as [|[[x1 y1] z1] a IH]; intros [|[[x2 y2] z2] b] H; simpl in *;
    try reflexivity; try discriminate.
  apply andb_true_iff in H. destruct H as [Hl H]. apply andb_true_iff in H. destruct H as [Hx H].
  apply andb_true_iff in Hx. destruct Hx as [Hx Hz]. apply andb_true_iff in Hx. destruct Hx as [Hx Hy].
  apply Z.eqb_eq in Hx, Hy, Hz. subst. f_equal. apply IH. rewrite Hl. exact H.
Qed.

Theorem C18_cube_table : C18_cube_table_stmt.
Proof.
  split; [|split].
  - assert (H : forallb (fun po : list nat * option (list (Z * Z * Z)) =>
                  match snd po with Some o => xyz_list_eqb o xyz_table | None => false end) cube_tab = true)
      by (vm_compute; reflexivity).
    intros p out Hin. pose proof (forallb_In _ _ H _ Hin) as H'. cbv beta in H'. cbn [snd] in H'.
    destruct out as [o|]; [|discriminate]. apply xyz_list_eqb_eq in H'. subst. reflexivity.
  - assert (H : forallb (fun p => existsb (fun qo : list nat * option (list (Z * Z * Z)) => perm_eqb p (fst qo)) cube_tab) sym48 = true)
      by (vm_compute; reflexivity).
    intros p Hp. pose proof (forallb_In _ _ H p Hp) as H'. cbv beta in H'. apply existsb_exists in H'.
    destruct H' as [[q out] [Hin Hq]]. exists q, out. split; [exact Hin|exact Hq].
  - vm_compute. reflexivity.
Qed.

Theorem C18_canonical : C18_canonical_stmt.
Proof. exact assemble_geometric. Qed.

Theorem C18_same_points : C18_same_points_stmt.
Proof. exact reorient_same_points. Qed.

Theorem C18_numbering_independent : C18_numbering_independent_stmt.
Proof. exact numbering_independent. Qed.

Theorem C18_right_handed : C18_right_handed_stmt.
Proof. exact right_handed_frame. Qed.

Theorem C18_alignment_order : C18_alignment_order_stmt.
Proof. exact rank_check_sound. Qed.

Theorem C18_grouping_partial : C18_grouping_partial_stmt.
Proof. exact grouping_separation. Qed.

Theorem C18_source_is_model : C18_source_is_model_stmt.
Proof.
  split; [intros tol o n p H; split; [exact (src_point_to_plane_distance_eq tol o n p H) | exact (src_is_point_on_plane_eq tol o n p H)]|].
  split; [exact src_is_point_on_plane_zero|].
  split; [intros tol vs p r; split; [exact (src_find_by_position_eq tol vs p r) | exact (src_find_in_sphere_eq tol vs p r)]|].
  split; [intros tol vs p; split; [exact (src_find_by_position_default_eq tol vs p) | exact (src_find_in_sphere_default_eq tol vs p)]|].
  split; [exact src_find_on_plane_eq|].
  split; [|split].
  - intros tol vs p r v. exists (find_in_sphere tol vs p (Some r)).
    split; [exact (src_find_in_sphere_eq tol vs p r) | exact (C18_sphere tol vs p (Some r) v)].
  - intros tol vs p v. exists (find_in_sphere tol vs p None).
    split; [exact (src_find_in_sphere_default_eq tol vs p) | exact (C18_sphere tol vs p None v)].
  - intros tol vs o n v H. exists (find_on_plane tol vs o n).
    split; [exact (src_find_on_plane_eq tol vs o n H) | exact (C18_plane tol vs o n v H)].
Qed.

(** the hypotheses are satisfiable *)
Example C18_plane_hyp_sat : (1, 0, 0)%R <> vzero.
Proof. intros H. inversion H. lra. Qed.

Example C18_right_handed_hyp_sat :
  (0 < norm2 (cross (vsub (0, -10, 0) (0, 0, 0)) (vsub (0, 0, 10) (0, 0, 0))))%R.
Proof. vec_simpl. lra. Qed.

Example C18_canonical_hyp_sat : geometric (fun c => c) (fun s => side_corners s).
Proof. exact geometric_id. Qed.

Example C18_grouping_partial_hyp_sat :
  orthoframe (fun s => match s with Front => (0, -1, 0) | Back => (0, 1, 0) | Top => (0, 0, 1) | Bottom => (0, 0, -1)
                                    | Left => (-1, 0, 0) | Right => (1, 0, 0) end)%R.
Proof. exact example_orthoframe. Qed.

Example C18_alignment_order_hyp_sat :
  rank_check (0, -80, 4)%Z (4, 4, 80)%Z
    [(0, 0, 0); (8, 0, 0); (8, 8, 0); (0, 8, 0); (0, 0, 8); (8, 0, 8); (8, 8, 8); (0, 8, 8)]%Z
    [[0; 1; 5]; [0; 5; 4]; [3; 2; 6]; [3; 6; 7]; [4; 5; 6]; [4; 6; 7]; [0; 1; 2]; [0; 2; 3]; [0; 3; 7]; [0; 7; 4]; [1; 2; 6]; [1; 6; 5]]%nat
    (rank_of [[2; 3; 4; 5; 6; 7; 8; 9; 10; 11; 0; 1]; [0; 1; 4; 5; 6; 7; 8; 9; 10; 11; 2; 3];
              [6; 7; 8; 9; 10; 11; 4; 5]; [4; 5; 8; 9; 10; 11; 6; 7]; [10; 11; 8; 9]; [8; 9; 10; 11]]%nat) = true.
Proof. vm_compute. reflexivity. Qed.

Example C18_round_near_real_hyp_sat : (0 < powerRZ 2 (-76))%R /\ (0 < 7555786372591433)%Z.
Proof. split; [apply powerRZ_lt; lra|reflexivity]. Qed.

Print Assumptions C18_sphere.
Print Assumptions C18_plane.
Print Assumptions C18_plane_invariant.
Print Assumptions C18_finders_decided.
Print Assumptions C18_round_model_exact.
Print Assumptions C18_round_near_real.
Print Assumptions C18_core_shell.
Print Assumptions C18_numbering_table.
Print Assumptions C18_cube_table.
Print Assumptions C18_canonical.
Print Assumptions C18_same_points.
Print Assumptions C18_numbering_independent.
Print Assumptions C18_right_handed.
Print Assumptions C18_alignment_order.
Print Assumptions C18_grouping_partial.
Print Assumptions C18_source_is_model.
