(** C12 - assemble / clear / backport / delete / write round-trips preserve the model.

    The statements are about the state machine of Model/C12_MeshLife.v with the five repairs in
    ([fixed]); they hold for every value of the constant tables ([tb]), every store of operations and
    every history.  The model is tied to the working tree by the history correspondence of the check
    (model evaluated inside Coq on the histories the implementation was run on) and by the tables of
    Gen/C12/Tables.v, regenerated on every run and checked below against the reference hexahedron. *)
From Coq Require Import List Bool Arith ZArith.
From CB Require Model.Propagate Model.C12_Regrade Proofs.PropagateTerm Proofs.PropagateFinal Proofs.C12_Regrade Proofs.C12_Tolerance.
From CB Require Import Base.Hex Model.C12_MeshLife Proofs.C12_Lists Proofs.C12_MeshLife Proofs.C12_Roundtrip Proofs.C12_Refute.
From CB Require Import Gen.C12.Tables.
Import ListNotations.
Open Scope nat_scope.

(** ** statements *)

(** THE ROUND TRIP on every assembled state a history leads to (fixes/C12-5b.diff, PatchList.rank): take ANY history
    [h0] from an empty mesh, clear and assemble (this is also what backport does), then modify_patch (on patches the
    assembly created, on new names, repeatedly), set_default_patch and write in any number and order [h] - depot,
    operations and deleted set as they were at the assembly.  The file written after one more [clear] is the file
    written without it: same vertices, blocks and gradings, the same patches IN THE SAME ORDER with the same types,
    settings and faces, same default patch and merged pairs; if one write fails, both fail alike. *)
Definition C12_roundtrip_stmt : Prop :=
  forall tb store h0 s0 h s,
    steps fixed tb (init store) h0 = Some s0 ->
    is_assembled (assemble tb (clear fixed s0)) = true ->
    steps fixed tb (assemble tb (clear fixed s0)) h = Some s -> forallb quiet h = true ->
    same_result (write fixed tb (clear fixed s)) (write fixed tb s).
(** the same from any cleared, well-formed state (no history needed): distinct patch names, every patch ranked *)
Definition C12_roundtrip_from_clean_stmt : Prop :=
  forall tb c h s, clean c -> pnodup c -> ranked c -> is_assembled (assemble tb c) = true ->
    steps fixed tb (assemble tb c) h = Some s -> forallb quiet h = true ->
    same_result (write fixed tb (clear fixed s)) (write fixed tb s).
(** before fixes/C12-5b.diff this was false: 'boundary' was written in dictionary order and clear keeps the modified
    patches in the dictionary, so after the round trip they precede the re-created ones *)
Definition C12_roundtrip_before_rank_stmt : Prop := roundtrip_law before_rank.

(** on a mesh not touched since its assembly, as equalities of states: clear undoes assemble and nothing else (the
    ranks given to the new patch names stay: they place the patches of the next assembly); assembling again gives the
    single assembly back, patch types and settings set through the mesh included (they are part of [c]) *)
Definition C12_clear_assemble_stmt : Prop :=
  forall tb c, clean c ->
    clear fixed (assemble tb c) = with_rank c (prank (assemble tb c))
    /\ assemble tb (clear fixed (assemble tb c)) = assemble tb c.

(** from any state whatsoever clear leads to a clean state with the same depot, operations, deleted
    set, default patch, merged pairs and the same type/settings of every modified patch *)
Definition C12_clear_keeps_user_stmt : Prop :=
  forall s, clean (clear fixed s) /\ depot (clear fixed s) = depot s /\ ops (clear fixed s) = ops s
    /\ deleted (clear fixed s) = deleted s /\ dflt (clear fixed s) = dflt s /\ merged (clear fixed s) = merged s
    /\ (forall n k st, modded (patches s) n k st -> modded (patches (clear fixed s)) n k st).

(** induction over histories: the type and settings given to a patch stay until it is modified again *)
Definition C12_patch_props_persist_stmt : Prop :=
  forall tb h s s' n k st,
    steps fixed tb s h = Some s' -> forallb (fun x => negb (modifies n x)) h = true ->
    modded (patches s) n k st -> modded (patches s') n k st.
Definition C12_modify_sets_stmt : Prop :=
  forall tb s n k set s' ev, step fixed tb s (ModifyPatch n k set) = Ok s' ev ->
    exists st, modded (patches s') n k st /\ (forall x, set = Some x -> st = x).

(** induction over histories: depot and deleted set are what the history says *)
Definition C12_depot_deleted_stmt : Prop :=
  forall tb h s s', steps fixed tb s h = Some s' ->
    depot s' = depot s ++ adds h /\ (forall k, mem k (deleted s') = mem k (dels h) || mem k (deleted s)).

(** back-porting unmoved vertices is the identity *)
Definition C12_backport_id_stmt : Prop :=
  forall tb c, clean c -> store_wf (ops c) -> pts_wf (ops c) ->
    backport fixed tb (assemble tb c)
    = if is_assembled (assemble tb c)
      then Ok (assemble tb c) [EPoints (map (fun ko => o_pts (snd ko)) (ops c))]
      else Err E_runtime.

(** back-porting after the vertices were replaced by any [Vm]: every operation with a block gets the
    positions of that block's vertices, operations without a block (deleted ones) are untouched, an
    operation none of whose vertices moved is unchanged, and the re-assembled mesh has the moved
    positions *)
Definition C12_backport_moves_stmt : Prop :=
  forall tb c Vm s1 ev, clean c -> NoDup (map fst (live_ops c)) ->
    let s0 := assemble tb c in
    let sm := with_lists s0 Vm (blocks s0) (patches s0) in
    backport fixed tb sm = Ok s1 ev ->
    (forall b o, In b (blocks s0) -> get_op (ops c) (b_src b) = Some o ->
       get_op (ops s1) (b_src b) = Some (with_pts o (geo Vm (b_verts b))))
    /\ (forall k, ~ In k (map b_src (blocks s0)) -> get_op (ops s1) k = get_op (ops c) k)
    /\ geo_blocks s1 = geo_blocks sm.
Definition C12_backport_unmoved_stmt : Prop :=
  forall tb c Vm s1 ev, clean c -> NoDup (map fst (live_ops c)) -> store_wf (ops c) -> pts_wf (ops c) ->
    let s0 := assemble tb c in
    backport fixed tb (with_lists s0 Vm (blocks s0) (patches s0)) = Ok s1 ev ->
    forall b o, In b (blocks s0) -> get_op (ops c) (b_src b) = Some o ->
      geo Vm (b_verts b) = geo (verts s0) (b_verts b) -> get_op (ops s1) (b_src b) = Some o.

(** deleting an operation removes its block and nothing else: the remaining blocks keep corner
    positions and chops, and all lists are those of a mesh the operation was never added to *)
Definition C12_delete_frame_stmt : Prop :=
  forall tb c x, clean c ->
    geo_blocks (assemble tb (delete_op c x))
    = filter (fun t => negb (fst (fst t) =? x)) (geo_blocks (assemble tb c))
    /\ (let a := assemble tb (delete_op c x) in let b := assemble tb (remove_op c x) in
        verts a = verts b /\ blocks a = blocks b /\ patches a = patches b).

(** the blocks of an assembly are the non-deleted operations of the depot, in order, where they are *)
Definition C12_assemble_geo_stmt : Prop :=
  forall tb c, clean c -> geo_blocks (assemble tb c) = spec_blocks (live_ops c).

(** a second write gives the same file and leaves the same state - for every mesh: axes chopped by the
    user (one or several chops) and axes whose gradings and chops are PROPAGATED from neighbouring blocks
    (WirePropagateManager.copy_neighbours / propagate_grading, Axis.copy_grading,
    BlockList.propagate_gradings: Model/Propagate.v).  Any number of blocks, any sharing of vertices, any
    state before the first write.  The model follows the repaired code (fixes/C12-4.diff, /repo 79421ab):
    BlockList.grade_blocks resets every wire manager before it grades ([C12_Regrade.grade]).
    [write] iterates coincident wires / neighbour axes in the insertion order of the code; the second
    statement is the same for EVERY iteration order. *)
Definition C12_write_idempotent_stmt : Prop :=
  forall tb s s2 ev, write fixed tb s = Ok s2 ev -> write fixed tb s2 = Ok s2 ev.
Definition C12_write_idempotent_any_order_stmt : Prop :=
  forall orc tb s s2 ev, write_with orc fixed tb s = Ok s2 ev -> write_with orc fixed tb s2 = Ok s2 ev.

(** what the repair establishes: the result of Mesh.grade is a function of the block list, the user's chops
    and the iteration orders only - from ANY two states of wire gradings and copied chops (left by earlier
    writes, by nothing, by anything) grade gives the same result; and it is the first run.
    Lifted to write: replacing the gradings the blocks hold by anything changes neither the file nor the
    state after the write.  This covers write; move vertices; write as well: vertex positions and edge
    lengths are no input of grade in this count model (they are inputs of the payload model of C04, where a
    count can follow a length; there the reset makes the repeated grade recompute from the current lengths). *)
Definition C12_grade_state_independent_stmt : Prop :=
  forall bs o_coin o_nbrs s1 s2,
    C12_Regrade.grade bs o_coin o_nbrs s1 = C12_Regrade.grade bs o_coin o_nbrs s2
    /\ C12_Regrade.grade bs o_coin o_nbrs s1 = C12_Regrade.grade_no_reset bs o_coin o_nbrs true (Propagate.init bs).
Definition C12_write_forgets_gradings_stmt : Prop :=
  forall orc tb s G A, is_assembled s = true ->
    write_with orc fixed tb (with_gradings s G A) = write_with orc fixed tb s.

(** THE CODE BEFORE THE REPAIR (grade_no_reset: chopped axes re-add their chops, un-chopped axes keep the chops
    they copied, wires keep their gradings, copy_neighbours copies again from every defined coincident wire):
    for chops that fix a count it was idempotent all the same - a grade that ends without error, from the state
    assemble leaves or from any other, is followed by a grade that ends without error and changes no wire
    of the mesh and no axis ([eqin]: equal gradings on every wire of every block).  This is why the stale state
    was invisible for count-only chops and showed only with expansions or with counts that follow lengths. *)
Definition C12_grade_twice_without_reset_stmt : Prop :=
  forall bs o_coin o_nbrs s0 s,
    C12_Regrade.grade_no_reset bs o_coin o_nbrs true s0 = C12_Regrade.GOk s ->
    exists s', C12_Regrade.grade_no_reset bs o_coin o_nbrs true s = C12_Regrade.GOk s'
               /\ C12_Regrade.eqin bs s' s /\ Propagate.ach s' = Propagate.ach s.
Definition C12_write_idempotent_without_reset_stmt : Prop :=
  forall orc tb s s2 ev,
    write_with orc before_reset tb s = Ok s2 ev -> write_with orc before_reset tb s2 = Ok s2 ev.

(** the error [E_model] (fuel of the propagation loop, oracle not an ordering) is an artefact of the model
    that never shows *)
Definition C12_write_no_model_error_stmt : Prop :=
  forall c tb s, write c tb s <> Err E_model.

(** THE DEFECT REPAIRED BY fixes/C12-4.diff, beyond count-only chops: with expansions the code compares gradings
    of coincident wires up to constants.TOL (Grading.__eq__), and copy_neighbours lets the LAST defined
    coincident wire win: a wire that took its grading from the only neighbour defined at its turn in the
    first run took, in the un-reset second run, the tolerance-equal grading of a neighbour graded later.
    On the payload model of C04 (Model/C04_Payload.v: rational expansions, tolerance check) exact idempotence
    of the UN-RESET second run (C04's grade_blocks / propagate applied to the final state of the first) is
    FALSE; the witness is the mesh of corpus/C12/repro_second_write_tolerance.py (four boxes, expansions 2 and
    2 + 1e-8).  With the reset the second run is [C04_Payload.final] again - the first run. *)
Definition C12_second_write_exact_with_expansions_stmt : Prop :=
  forall bs tau eor o_coin o_nbrs s s',
    C04_Payload.final bs eor o_coin o_nbrs = Some s ->
    C04_Payload.consistent bs tau s = true ->
    C04_Payload.propagate bs eor o_coin o_nbrs (C04_Payload.fuel4 bs)
      (C04_Payload.grade_blocks bs eor o_coin s) (seq 0 (C04_Payload.nblocks4 bs)) = C04_Payload.Done s' ->
    forall b, b < C04_Payload.nblocks4 bs -> C04_Payload.printed tau s' b = C04_Payload.printed tau s b.

(** the original code violated three of these (witnesses in Proofs/C12_Refute.v) *)
Definition C12_original_write_twice_stmt : Prop :=
  forall tb s s2 ev, write original tb s = Ok s2 ev -> write original tb s2 = Ok s2 ev.
Definition C12_original_clear_stmt : Prop :=
  forall tb c, clean c -> clear original (assemble tb c) = c.
Definition C12_original_backport_stmt : Prop :=
  forall tb c, clean c -> store_wf (ops c) -> pts_wf (ops c) ->
    backport original tb (assemble tb c)
    = if is_assembled (assemble tb c)
      then Ok (assemble tb c) [EPoints (map (fun ko => o_pts (snd ko)) (ops c))]
      else Err E_runtime.

(** the tabulated tables: every side of the code is a side cycle of the reference hexahedron, the
    wires of an axis are its four parallel edges, and they are the tables the witnesses used *)
Definition hex_side (i : nat) : side := nth i sides Bottom.
Definition C12_tables_stmt : Prop :=
  length tab_face_map = 6 /\ length tab_orient_side = 6
  /\ (forall j, j < 6 -> is_side_cycle (hex_side (nth j tab_orient_side 0)) (nth j tab_face_map []) = true)
  /\ length tab_axis_pairs = 3
  /\ (forall a k, a < 3 -> k < 4 ->
        edge_axis (fst (nth k (nth a tab_axis_pairs []) (0, 0))) (snd (nth k (nth a tab_axis_pairs []) (0, 0))) = Some a)
  /\ (forall a, a < 3 -> length (nth a tab_axis_pairs []) = 4
        /\ nodupb (map (fun p => 8 * Nat.min (fst p) (snd p) + Nat.max (fst p) (snd p)) (nth a tab_axis_pairs [])) = true)
  /\ tb = tb0
  /\ axis_pairs tb = Propagate.axis_pairs.

(** ** theorems *)
Theorem C12_roundtrip : C12_roundtrip_stmt.
Proof. exact roundtrip_reachable. Qed.

Theorem C12_roundtrip_from_clean : C12_roundtrip_from_clean_stmt.
Proof.
  intros tb c h s Hc Hn Hr Ha H Q. apply good_roundtrip.
  apply (good_steps tb h (assemble tb c) s); [apply good_assemble; assumption|exact Q|exact H].
Qed.

Theorem C12_roundtrip_before_rank_refuted : ~ C12_roundtrip_before_rank_stmt.
Proof. exact roundtrip_before_rank_refuted. Qed.

Theorem C12_clear_assemble : C12_clear_assemble_stmt.
Proof. intros tb c H. split; [exact (clear_assemble_id tb c H)|exact (clear_assemble tb c H)]. Qed.

Theorem C12_clear_keeps_user : C12_clear_keeps_user_stmt.
Proof. exact clear_keeps_user. Qed.

Theorem C12_patch_props_persist : C12_patch_props_persist_stmt.
Proof. exact patch_props_persist. Qed.

Theorem C12_modify_sets : C12_modify_sets_stmt.
Proof. intros tb s n k set s' ev H. simpl in H. inversion H. subst. exact (modify_sets tb s n k set). Qed.

Theorem C12_depot_deleted : C12_depot_deleted_stmt.
Proof. exact depot_deleted_persist. Qed.

Theorem C12_backport_id : C12_backport_id_stmt.
Proof. exact backport_id. Qed.

Theorem C12_backport_moves : C12_backport_moves_stmt.
Proof. exact backport_moves. Qed.

Theorem C12_backport_unmoved : C12_backport_unmoved_stmt.
Proof. exact backport_unmoved. Qed.

Theorem C12_delete_frame : C12_delete_frame_stmt.
Proof. intros tb c x H. split; [exact (delete_frame tb c x H)|exact (delete_is_never_added tb c x)]. Qed.

Theorem C12_assemble_geo : C12_assemble_geo_stmt.
Proof. exact assemble_geo. Qed.

Theorem C12_write_idempotent : C12_write_idempotent_stmt.
Proof. exact write_idempotent. Qed.

Theorem C12_write_idempotent_any_order : C12_write_idempotent_any_order_stmt.
Proof. exact write_with_idempotent. Qed.

Theorem C12_grade_state_independent : C12_grade_state_independent_stmt.
Proof.
  intros bs oc on s1 s2. split; [apply C12_Regrade.grade_state_independent | apply C12_Regrade.grade_is_first_run].
Qed.

Theorem C12_write_forgets_gradings : C12_write_forgets_gradings_stmt.
Proof. exact write_forgets_gradings. Qed.

Theorem C12_grade_twice_without_reset : C12_grade_twice_without_reset_stmt.
Proof. exact C12_Regrade.grade_twice. Qed.

Theorem C12_write_idempotent_without_reset : C12_write_idempotent_without_reset_stmt.
Proof. exact write_with_idempotent_before_reset. Qed.

Theorem C12_write_no_model_error : C12_write_no_model_error_stmt.
Proof. exact write_no_model_error. Qed.

Theorem C12_second_write_exact_with_expansions_refuted : ~ C12_second_write_exact_with_expansions_stmt.
Proof. exact C12_Tolerance.second_write_exact_refuted. Qed.

Theorem C12_original_write_twice_refuted : ~ C12_original_write_twice_stmt.
Proof. exact original_write_twice_refuted. Qed.

Theorem C12_original_clear_refuted : ~ C12_original_clear_stmt.
Proof. exact original_clear_refuted. Qed.

Theorem C12_original_backport_refuted : ~ C12_original_backport_stmt.
Proof. exact original_backport_refuted. Qed.

Lemma lt_forall (P : nat -> Prop) n : (forall j, In j (seq 0 n) -> P j) -> forall j, j < n -> P j.
Proof. intros H j Hj. apply H. apply in_seq. split; [apply Nat.le_0_l|exact Hj]. Qed.

Theorem C12_tables : C12_tables_stmt.
Proof.
  split; [vm_compute; reflexivity|]. split; [vm_compute; reflexivity|].
  split.
  { apply lt_forall. assert (H : forallb (fun j => is_side_cycle (hex_side (nth j tab_orient_side 0)) (nth j tab_face_map [])) (seq 0 6) = true)
      by (vm_compute; reflexivity).
    rewrite forallb_forall in H. exact H. }
  split; [vm_compute; reflexivity|].
  split.
  { assert (H : forallb (fun a => forallb (fun k =>
        match edge_axis (fst (nth k (nth a tab_axis_pairs []) (0, 0))) (snd (nth k (nth a tab_axis_pairs []) (0, 0))) with
        | Some a' => a' =? a | None => false end) (seq 0 4)) (seq 0 3) = true) by (vm_compute; reflexivity).
    rewrite forallb_forall in H. intros a k Ha Hk.
    assert (Ia : In a (seq 0 3)) by (apply in_seq; split; [apply Nat.le_0_l|exact Ha]).
    assert (Ik : In k (seq 0 4)) by (apply in_seq; split; [apply Nat.le_0_l|exact Hk]).
    specialize (H a Ia). rewrite forallb_forall in H. specialize (H k Ik).
    destruct (edge_axis _ _) as [a'|]; [|discriminate]. apply Nat.eqb_eq in H. subst. reflexivity. }
  split.
  { apply lt_forall.
    assert (H : forallb (fun a => (length (nth a tab_axis_pairs []) =? 4)
        && nodupb (map (fun p => 8 * Nat.min (fst p) (snd p) + Nat.max (fst p) (snd p)) (nth a tab_axis_pairs []))) (seq 0 3) = true)
      by (vm_compute; reflexivity).
    rewrite forallb_forall in H. intros a Ia. specialize (H a Ia). apply andb_true_iff in H. destruct H as [H1 H2].
    apply Nat.eqb_eq in H1. auto. }
  split; vm_compute; reflexivity.
Qed.

Print Assumptions C12_roundtrip.
Print Assumptions C12_roundtrip_from_clean.
Print Assumptions C12_roundtrip_before_rank_refuted.
Print Assumptions C12_clear_assemble.
Print Assumptions C12_clear_keeps_user.
Print Assumptions C12_patch_props_persist.
Print Assumptions C12_modify_sets.
Print Assumptions C12_depot_deleted.
Print Assumptions C12_backport_id.
Print Assumptions C12_backport_moves.
Print Assumptions C12_backport_unmoved.
Print Assumptions C12_delete_frame.
Print Assumptions C12_assemble_geo.
Print Assumptions C12_write_idempotent.
Print Assumptions C12_write_idempotent_any_order.
Print Assumptions C12_grade_state_independent.
Print Assumptions C12_write_forgets_gradings.
Print Assumptions C12_grade_twice_without_reset.
Print Assumptions C12_write_idempotent_without_reset.
Print Assumptions C12_write_no_model_error.
Print Assumptions C12_second_write_exact_with_expansions_refuted.
Print Assumptions C12_original_write_twice_refuted.
Print Assumptions C12_original_clear_refuted.
Print Assumptions C12_original_backport_refuted.
Print Assumptions C12_tables.
