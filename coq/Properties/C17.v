(** C17 - Clamps stay on their manifold and links keep their relation.

    Model: Model/C17_ClampLink.v (transcribed from optimize/clamps/*.py, optimize/links.py,
    util/functions.py); tied to the working tree by the interval-checked correspondence of the check
    and by the flag of Gen/C17/Flags.v (does [functions.mirror] modify its ndarray argument?),
    regenerated on every run. *)
From Coq Require Import Reals List Lra.
From CB Require Import Base.Vec3 Model.C17_ClampLink Proofs.C17_ClampLink.
From CB Require Import Gen.C17.Flags.
From CB Require Import Gen.C17.Source Proofs.C17_SourceEq.
Import ListNotations.
Open Scope R_scope.

(** ** clamps: for any parameter values the position lies on the declared manifold *)

(** LineClamp: on the line through the two points (any two distinct points, any real parameter);
    the parameter is the signed distance from point_1, 0 at point_1 and |p2-p1| at point_2; within
    the default bounds the position is on the segment *)
Definition C17_line_stmt : Prop :=
  forall p1 p2 : vec, p1 <> p2 ->
    (forall t, cross (vsub (line_pos p1 p2 t) p1) (vsub p2 p1) = vzero
               /\ norm (vsub (line_pos p1 p2 t) p1) = Rabs t)
    /\ line_pos p1 p2 0 = p1
    /\ line_pos p1 p2 (snd (line_default_bounds p1 p2)) = p2
    /\ (forall t, fst (line_default_bounds p1 p2) <= t <= snd (line_default_bounds p1 p2) ->
          exists s, 0 <= s <= 1 /\ line_pos p1 p2 t = vadd p1 (vscale s (vsub p2 p1))).

(** PlaneClamp: in the plane through [point] with normal [n] for every parameter pair, whatever the
    auxiliary (random) direction [r]; when [r] is not collinear with [n] the two directions are an
    orthonormal frame of the plane and every point of the plane is reached *)
Definition C17_plane_stmt : Prop :=
  forall point n r : vec,
    (forall uv, dot (vsub (plane_pos point n r uv) point) n = 0)
    /\ (cross r n <> vzero ->
          norm2 (plane_u n r) = 1 /\ norm2 (plane_v n r) = 1 /\ dot (plane_u n r) (plane_v n r) = 0
          /\ forall q, dot (vsub q point) n = 0 -> exists uv, plane_pos point n r uv = q).

(** RadialClamp: for every parameter, and every angle-per-parameter factor [k] (the code uses
    1/radius), same distance from the axis, same height along it, same distance from the centre;
    parameter 0 is the initial point *)
Definition C17_radial_stmt : Prop :=
  forall p0 c n : vec, n <> vzero ->
    (forall k t,
       point_to_line_distance c n (radial_pos_k p0 c n k t) = point_to_line_distance c n p0
       /\ dot (vsub (radial_pos_k p0 c n k t) c) n = dot (vsub p0 c) n
       /\ norm2 (vsub (radial_pos_k p0 c n k t) c) = norm2 (vsub p0 c))
    /\ (forall k, radial_pos_k p0 c n k 0 = p0)
    /\ (forall t, radial_pos p0 c n t = radial_pos_k p0 c n (/ radial_radius p0 c n) t).

(** Curve / parametric surface / free clamps: the position after [update_params q] is the declared
    function at [q] (so it is on the declared curve / surface by definition) *)
Definition C17_declared_function_stmt : Prop :=
  (forall (g : R -> vec) (c : clamp R) (t : R),
     clamp_position (clamp_update (curve_pos g) c t) = g t /\ clamp_params (clamp_update (curve_pos g) c t) = t)
  /\ (forall (g : R -> R -> vec) (c : clamp (R * R)) (uv : R * R),
     clamp_position (clamp_update (surface_pos g) c uv) = g (fst uv) (snd uv))
  /\ (forall (c : clamp vec) (p : vec), clamp_position (clamp_update free_pos c p) = p).

(** ** a freshly created clamp *)

(** Whatever the position function and the admissible parameter set [dom]: IF the minimiser returns
    a minimiser of the distance over [dom] (the assumption about scipy.optimize.minimize, monitored
    by the check to 1e-4 size), the new clamp's position is on the manifold at its own parameters, is a
    closest point of the manifold to the given position, and IS the given position when that lies on
    the manifold. *)
Definition C17_initial_stmt : Prop :=
  forall (P : Type) (fn : P -> vec) (minimise : (P -> R) -> P) (dom : P -> Prop) (pos : vec),
    is_argmin dom (clamp_distance fn pos) (minimise (clamp_distance fn pos)) ->
    let c := clamp_init fn minimise pos in
    clamp_position c = fn (clamp_params c) /\ dom (clamp_params c)
    /\ (forall q, dom q -> norm (vsub pos (clamp_position c)) <= norm (vsub pos (fn q)))
    /\ (forall q, dom q -> fn q = pos -> clamp_position c = pos).

(** closed forms of the minimiser for the line (with bounds) and the plane: they minimise, and
    nothing else does *)
Definition C17_initial_line_stmt : Prop :=
  forall p1 p2 pos lo hi, p1 <> p2 -> lo <= hi ->
    is_argmin (fun t => lo <= t <= hi) (clamp_distance (line_pos p1 p2) pos) (line_closest_t p1 p2 pos lo hi)
    /\ forall t, is_argmin (fun t => lo <= t <= hi) (clamp_distance (line_pos p1 p2) pos) t ->
                 t = line_closest_t p1 p2 pos lo hi.

Definition C17_initial_plane_stmt : Prop :=
  forall point n r pos, cross r n <> vzero ->
    is_argmin (fun _ => True) (clamp_distance (plane_pos point n r) pos) (plane_closest_uv point n r pos)
    /\ (forall uv, is_argmin (fun _ => True) (clamp_distance (plane_pos point n r) pos) uv ->
                   uv = plane_closest_uv point n r pos)
    /\ plane_pos point n r (plane_closest_uv point n r pos) = plane_closest_point point n pos.

(** RadialClamp and FreeClamp are created AT the given position: parameter 0 (resp. the position
    itself) is at distance zero, hence a minimiser over any admissible set that contains it; with
    [C17_initial] the new clamp reports exactly the position it was created at *)
Definition C17_initial_radial_free_stmt : Prop :=
  (forall p0 c n k (dom : R -> Prop), dom 0 ->
     is_argmin dom (clamp_distance (radial_pos_k p0 c n k) p0) 0 /\ radial_pos_k p0 c n k 0 = p0)
  /\ (forall pos : vec,
     is_argmin (fun _ => True) (clamp_distance free_pos pos) pos
     /\ forall q, is_argmin (fun _ => True) (clamp_distance free_pos pos) q -> q = pos).

(** ** links *)

(** TranslationLink, after any history of leader moves and updates: an update puts the follower at
    the leader displaced by the ORIGINAL offset *)
Definition C17_translation_stmt : Prop :=
  forall (l0 f0 : vec) (ops : list lop),
    (let s := tl_run (tl_init l0 f0) ops in
     tl_follower (tl_step s Update) = vadd (tl_leader s) (vsub f0 l0))
    /\ (forall p, let s := tl_run (tl_init l0 f0) (ops ++ [Move p; Update]) in
                  tl_leader s = p /\ tl_follower s = vadd p (vsub f0 l0)).

(** RotationLink, after any history, with the leader anywhere off the axis: the follower is the
    ORIGINAL follower turned about the axis through the origin by the rotation (c, s) that takes the
    direction of the original leader's radius vector to that of the current one *)
Definition C17_rotation_stmt : Prop :=
  forall (tol : R) (l0 f0 axis o : vec) (s0 : rlink) (ops : list lop),
    0 < tol -> axis <> vzero -> rl_init tol l0 f0 axis o = Some s0 ->
    let s := rl_run s0 ops in
    let a := unit axis in
    let r0 := rl_radius o a l0 in
    let r1 := rl_radius o a (rl_leader s) in
    r1 <> vzero ->
    exists c sn, c * c + sn * sn = 1
      /\ rot_cs c sn a (unit r0) = unit r1
      /\ rl_follower (rl_step s Update) = vadd (rot_cs c sn a (vsub f0 o)) o.

(** ... in particular, when the leader was rotated about the link's axis by ANY angle phi, the follower
    is the original follower rotated by phi *)
Definition C17_rotation_about_axis_stmt : Prop :=
  forall (tol : R) (l0 f0 axis o : vec) (s0 : rlink) (ops : list lop) (phi : R),
    0 < tol -> axis <> vzero -> rl_init tol l0 f0 axis o = Some s0 ->
    let s := rl_run s0 (ops ++ [Move (rotate l0 phi axis o); Update]) in
    rl_leader s = rotate l0 phi axis o /\ rl_follower s = rotate f0 phi axis o.

(** the correspondence of the check evaluates the arccos-free run [rl_run_cs] (cosine and sine of the
    signed angle in closed form); it IS the transcribed run [rl_run] (arccos, clip, sign flip) as long
    as the leader stays off the axis *)
Definition C17_rotation_corr_form_stmt : Prop :=
  forall (tol : R) (l0 f0 axis o : vec) (s0 : rlink) (ops : list lop),
    0 < tol -> axis <> vzero -> rl_init tol l0 f0 axis o = Some s0 ->
    Forall (off_axis (rl_const s0)) ops ->
    rl_run_cs s0 ops = rl_run s0 ops.

(** SymmetryLink: after an update the follower is the mirror image of the leader in the plane
    (origin, normal) for any non-zero, non-unit normal: the mid point lies in the plane, the
    connection is along the normal, mirroring twice is the identity, distances to points of the plane
    are kept *)
Definition is_mirror_image (p q n o : vec) : Prop :=
  dot (vsub (vscale (1 / 2) (vadd p q)) o) n = 0 /\ cross (vsub q p) n = vzero.

Definition C17_symmetry_stmt : Prop :=
  forall (b : bool) (l f n o : vec) (ops : list lop), n <> vzero ->
    let s := sl_run b (sl_init b l f n o) ops in
    is_mirror_image (sl_leader s) (sl_follower (sl_step b s Update)) n o
    /\ sl_follower (sl_step b s Update) = reflect (sl_leader s) n o
    /\ reflect (reflect (sl_leader s) n o) n o = sl_leader s
    /\ forall x, dot (vsub x o) n = 0 ->
         norm2 (vsub (reflect (sl_leader s) n o) x) = norm2 (vsub (sl_leader s) x).

(** constructing or updating a link does not alter the leader (all three kinds; for SymmetryLink
    with the behaviour of [functions.mirror] tabulated from the working tree in this run) *)
Definition C17_leader_unaltered_stmt : Prop :=
  (forall l0 f0 ops, tl_leader (tl_init l0 f0) = l0 /\
     let s := tl_run (tl_init l0 f0) ops in tl_leader (tl_step s Update) = tl_leader s)
  /\ (forall tol l0 f0 axis o s0 ops, rl_init tol l0 f0 axis o = Some s0 ->
     rl_leader s0 = l0 /\ let s := rl_run s0 ops in rl_leader (rl_step s Update) = rl_leader s)
  /\ (forall l f n o ops, n <> vzero ->
     sl_leader (sl_init mirror_inplace l f n o) = l /\
     let s := sl_run mirror_inplace (sl_init mirror_inplace l f n o) ops in
     sl_leader (sl_step mirror_inplace s Update) = sl_leader s).

(** ** proofs *)

Theorem C17_line : C17_line_stmt.
Proof.
  intros p1 p2 H. split; [|split; [|split]].
  - intro t. split; [apply line_on_line | apply line_param_is_distance; exact H].
  - apply line_pos_0.
  - apply line_pos_d; exact H.
  - intros t Ht. apply line_segment; assumption.
Qed.

Theorem C17_plane : C17_plane_stmt.
Proof.
  intros point n r. split; [intro uv; apply plane_on_plane|].
  intro H. destruct (plane_frame n r H) as (N & HU & HV & HUV & _).
  repeat split; auto. intros q Hq. exists (plane_closest_uv point n r q). apply plane_onto; assumption.
Qed.

Theorem C17_radial : C17_radial_stmt.
Proof.
  intros p0 c n N. split; [|split].
  - intros k t. destruct (radial_on_circle p0 c n k t N) as (_ & H2 & H3).
    split; [apply radial_distance_kept; exact N|]. split; assumption.
  - intro k. apply radial_pos_0.
  - intro t. apply radial_pos_is_k.
Qed.

Theorem C17_declared_function : C17_declared_function_stmt.
Proof. repeat split. Qed.

Theorem C17_initial : C17_initial_stmt.
Proof. intros P fn minimise dom pos H. exact (clamp_init_props fn minimise dom pos H). Qed.

Theorem C17_initial_line : C17_initial_line_stmt.
Proof.
  intros p1 p2 pos lo hi H Hb. split; [apply line_closest_argmin; assumption|].
  intros t Ht. apply line_closest_unique; assumption.
Qed.

Theorem C17_initial_plane : C17_initial_plane_stmt.
Proof.
  intros point n r pos H. split; [apply plane_closest_argmin; exact H|]. split.
  - intros uv Huv. apply plane_closest_unique; assumption.
  - apply plane_closest_is_projection; exact H.
Qed.

Theorem C17_initial_radial_free : C17_initial_radial_free_stmt.
Proof.
  split.
  - intros p0 c n k dom Hd. split; [apply radial_initial_argmin; exact Hd | apply radial_pos_0].
  - exact free_initial_argmin.
Qed.

Theorem C17_translation : C17_translation_stmt.
Proof.
  intros l0 f0 ops. split.
  - exact (proj1 (tl_update_law l0 f0 ops)).
  - intro p. exact (tl_move_update_law l0 f0 ops p).
Qed.

Theorem C17_rotation : C17_rotation_stmt.
Proof.
  intros tol l0 f0 axis o s0 ops Ht Na Hi s a r0 r1 N1.
  destruct (rl_update_law tol l0 f0 axis o s0 ops Ht Na Hi N1) as (c & sn & H1 & H2 & H3 & _).
  exists c, sn. auto.
Qed.

Theorem C17_rotation_about_axis : C17_rotation_about_axis_stmt.
Proof. intros tol l0 f0 axis o s0 ops phi Ht Na Hi. exact (rl_rotated_leader_law tol l0 f0 axis o s0 ops phi Ht Na Hi). Qed.

Theorem C17_rotation_corr_form : C17_rotation_corr_form_stmt.
Proof.
  intros tol l0 f0 axis o s0 ops Ht Na Hi Hall.
  destruct (rl_init_some tol l0 f0 axis o s0 Ht Na Hi) as (El & _ & Eo & Ea & _ & Er & N0 & Hk & Hp).
  apply rl_run_cs_eq; auto.
  rewrite Eo, Ea, El, <- Er. exact N0.
Qed.

Theorem C17_symmetry : C17_symmetry_stmt.
Proof.
  intros b l f n o ops N s.
  destruct (sl_update_law b l f n o ops N) as [Hf _]. fold s in Hf.
  split; [|split; [exact Hf|split]].
  - rewrite Hf. split; [apply reflect_midpoint_on_plane; exact N | apply reflect_along_normal].
  - apply reflect_involutive; exact N.
  - intros x Hx. apply reflect_equidistant; assumption.
Qed.

Theorem C17_leader_unaltered : C17_leader_unaltered_stmt.
Proof.
  split; [|split].
  - intros l0 f0 ops. split; reflexivity.
  - intros tol l0 f0 axis o s0 ops Hi. split; [|reflexivity].
    unfold rl_init in Hi. destruct Rlt_dec; [discriminate|]. inversion Hi. reflexivity.
  - intros l f n o ops N. split.
    + rewrite sl_init_leader. reflexivity.
    + exact (proj2 (sl_update_law mirror_inplace l f n o ops N)).
Qed.

(** ** the hypotheses are satisfiable *)
(** ** the model of the clamp position functions and of the links is the source

    Gen/C17/Source.v: the translation (harness/translate_np.py, regenerated from the working tree on every run, fail
    closed) of functions.unit_vector / angle_between / point_to_line_distance / mirror_matrix / mirror, of the position
    functions of LineClamp, PlaneClamp and RadialClamp (the closures their constructors hand to ClampBase as [function])
    and of TranslationLink.transform, SymmetryLink.transform / _get_follower, RotationLink.transform / _get_radius /
    _get_height.  [Some y] = read in exact real arithmetic the call returns y; [None] = no real-number reading
    (unit_vector of the zero vector, division by a zero radius: numpy's nan / inf).  np.random.random(3) of PlaneClamp
    is the input [r]; functions.rotate (scipy.linalg.expm) is an input FUNCTION of the translated RadialClamp function
    and RotationLink.transform, instantiated here with the model's [rotate]: that the code's rotate is that function
    stays tied by the sampled interval correspondence.  Last four conjuncts: [C17_line], [C17_plane], [C17_symmetry]
    and [C17_translation] as theorems about the translated source. *)
Definition C17_source_is_model_stmt : Prop :=
  (forall tol v, v <> vzero -> src_unit_vector tol v = Some (unit v))
  /\ (forall tol v1 v2, v1 <> vzero -> v2 <> vzero -> src_angle_between tol v1 v2 = Some (angle_between v1 v2))
  /\ (forall tol o d p, d <> vzero -> src_point_to_line_distance tol o d p = Some (point_to_line_distance o d p))
  /\ (forall tol b p n o, n <> vzero -> src_mirror tol p n o = Some (fst (mirror b p n o)))
  /\ (forall tol pos p1 p2 t, p1 <> p2 -> src_LineClamp_function tol pos p1 p2 t = Some (line_pos p1 p2 t))
  /\ (forall tol pos p t, src_LineClamp_function tol pos p p t = None)
  /\ (forall tol pos point n u v r, cross r n <> vzero ->
        src_PlaneClamp_function tol pos point n u v r = Some (plane_pos point n r (u, v)))
  /\ (forall tol p0 c n t, n <> vzero -> radial_radius p0 c n <> 0 ->
        src_RadialClamp_function tol p0 c n t rotate = Some (radial_pos p0 c n t))
  /\ (forall tol l f v, src_TranslationLink_transform tol l v = Some (tl_follower (tl_step (l, f, v) Update)))
  /\ (forall tol b l f n o, n <> vzero ->
        src_SymmetryLink_transform tol l n o = Some (sl_follower (sl_step b (l, f, (n, o)) Update))
        /\ src_SymmetryLink_get_follower tol l n o = Some (fst (mirror b l n o)))
  /\ (forall tol l o a r0 f0 p,
        src_RotationLink_get_height tol l o a r0 f0 p = Some (rl_height o a p)
        /\ src_RotationLink_get_radius tol l o a r0 f0 p = Some (rl_radius o a p))
  /\ (forall tol l o a r0 f0, r0 <> vzero -> rl_radius o a l <> vzero ->
        src_RotationLink_transform tol l o a r0 f0 rotate
        = Some (rl_follower (rl_step (l, f0, {| rc_origin := o; rc_axis := a; rc_r0 := r0; rc_f0 := f0 |}) Update)))
  /\ (forall tol l o a r0 f0 rot, rl_radius o a l = vzero -> src_RotationLink_transform tol l o a r0 f0 rot = None)
  /\ (forall tol pos p1 p2 t, p1 <> p2 ->
        exists q, src_LineClamp_function tol pos p1 p2 t = Some q
                  /\ cross (vsub q p1) (vsub p2 p1) = vzero /\ norm (vsub q p1) = Rabs t)
  /\ (forall tol pos point n u v r, cross r n <> vzero ->
        exists q, src_PlaneClamp_function tol pos point n u v r = Some q /\ dot (vsub q point) n = 0)
  /\ (forall tol l n o, n <> vzero ->
        src_SymmetryLink_transform tol l n o = Some (reflect l n o) /\ is_mirror_image l (reflect l n o) n o)
  /\ (forall tol l0 f0 ops,
        let s := tl_run (tl_init l0 f0) ops in
        src_TranslationLink_transform tol (tl_leader s) (tl_vector s) = Some (vadd (tl_leader s) (vsub f0 l0))).

Theorem C17_source_is_model : C17_source_is_model_stmt.
Proof.
  split; [exact src_unit_vector_eq|]. split; [exact src_angle_between_eq|]. split; [exact src_point_to_line_distance_eq|].
  split; [exact src_mirror_eq|]. split; [exact src_LineClamp_function_eq|]. split; [exact src_LineClamp_function_degenerate|].
  split; [intros tol pos point n u v r H; exact (src_PlaneClamp_function_eq tol pos point n u v r (plane_dom_of_cross n r H))|].
  split; [exact src_RadialClamp_function_eq|]. split; [exact src_TranslationLink_transform_eq|].
  split; [exact src_SymmetryLink_transform_eq|]. split; [exact src_RotationLink_radius_eq|].
  split; [exact src_RotationLink_transform_eq|]. split; [exact src_RotationLink_transform_on_axis|].
  split; [|split; [|split]].
  - intros tol pos p1 p2 t H. exists (line_pos p1 p2 t). split; [exact (src_LineClamp_function_eq tol pos p1 p2 t H)|].
    destruct (C17_line p1 p2 H) as [L _]. exact (L t).
  - intros tol pos point n u v r H. exists (plane_pos point n r (u, v)).
    split; [exact (src_PlaneClamp_function_eq tol pos point n u v r (plane_dom_of_cross n r H))|].
    destruct (C17_plane point n r) as [P _]. exact (P (u, v)).
  - intros tol l n o H.
    pose proof (C17_symmetry false l l n o [] H) as K. cbv zeta in K.
    change (sl_run false (sl_init false l l n o) []) with (l, l, (n, o)) in K.
    change (sl_leader (l, l, (n, o))) with l in K. destruct K as (M & E & _).
    destruct (src_SymmetryLink_transform_eq tol false l l n o H) as [T _].
    split; [rewrite T, E; reflexivity | rewrite <- E; exact M].
  - intros tol l0 f0 ops s.
    rewrite (src_TranslationLink_transform_eq tol (tl_leader s) (tl_follower s) (tl_vector s)). f_equal.
    replace (tl_leader s, tl_follower s, tl_vector s) with s by (destruct s as [[a b] c]; reflexivity).
    exact (proj1 (C17_translation l0 f0 ops)).
Qed.

Example C17_source_is_model_hyp : (0, 0, 1) <> vzero /\ radial_radius (1, 0, 0) (0, 0, 0) (0, 0, 1) <> 0.
Proof. exact radial_hyp_sat. Qed.

Example C17_line_hyp : (0, 0, 0) <> ((1, 2, 3) : vec).
Proof. intro E. inversion E. lra. Qed.

Example C17_plane_hyp : cross (1, 0, 0) (0, 0, 2) <> vzero.
Proof. unfold cross, vzero, vx, vy, vz. cbn [fst snd]. intro E. inversion E. lra. Qed.

Example C17_rotation_hyp :
  exists s0, rl_init 1 (3, 0, 0) (0, 3, 0) (0, 0, 1) (0, 0, 0) = Some s0.
Proof.
  unfold rl_init. destruct Rlt_dec as [H|H]; [|eexists; reflexivity].
  exfalso. revert H. unfold rl_mk, rl_const, rl_radius, rl_height, unit, norm, norm2, vsub, vscale, dot, vx, vy, vz.
  cbn [fst snd rc_r0].
  replace (0 * 0 + 0 * 0 + 1 * 1) with 1 by ring. rewrite sqrt_1, Rinv_1.
  match goal with |- sqrt ?x < 1 -> False => replace x with (3 * 3) by ring end.
  rewrite sqrt_square by lra. lra.
Qed.

Print Assumptions C17_line.
Print Assumptions C17_plane.
Print Assumptions C17_radial.
Print Assumptions C17_declared_function.
Print Assumptions C17_initial.
Print Assumptions C17_initial_line.
Print Assumptions C17_initial_plane.
Print Assumptions C17_initial_radial_free.
Print Assumptions C17_translation.
Print Assumptions C17_rotation.
Print Assumptions C17_rotation_about_axis.
Print Assumptions C17_rotation_corr_form.
Print Assumptions C17_symmetry.
Print Assumptions C17_leader_unaltered.
Print Assumptions C17_source_is_model.
