(** C16 - Curve points, lengths and closest-parameter queries are mutually consistent.

    Statements about the model Model/C16_Curves.v (transcribed from construct/curves/*.py, items/edges/curve.py,
    construct/edges.py; tied to the code by the correspondence of harness/props/C16.py on every run).
    [lin_point ts ps] is the linear-interpolated curve through the points [ps] at the knots [ts] (the
    interpolator's own parameters), [il_length] the repaired InterpolatedCurveBase.get_length, [il_length_old]
    the formula of the snapshot, [dc_*] the discrete curve, [fc_*] any curve given by a function. *)
From Coq Require Import QArith Qreals Reals List Arith Lia Lra.
From CB Require Import Base.Vec3 Model.C16_Curves Model.C16_CurvesQ Proofs.C16_Curves Proofs.C16_Length Proofs.C16_Edge
  Proofs.C16_QSound Proofs.C16_Closest.
Import ListNotations.
Open Scope R_scope.

(** the hypotheses on an interpolated curve: strictly increasing knots, one point per knot, at least one segment *)
Definition knots_ok (ts : list R) (ps : list vec) : Prop :=
  incr ts /\ length ps = length ts /\ (2 <= length ts)%nat.

(** ** discretising between two parameters starts and ends at the curve's points for those parameters *)
Definition C16_discretize_ends_stmt : Prop :=
  (forall (f : R -> vec) a b n d, (2 <= n)%nat ->
     hd d (fc_discretize f a b n) = f a /\ last (fc_discretize f a b n) d = f b)
  /\ (forall pts a b, (a < length pts)%nat -> (b < length pts)%nat ->
     hd vzero (dc_discretize pts a b) = dc_point pts a /\ last (dc_discretize pts a b) vzero = dc_point pts b).
Theorem C16_discretize_ends : C16_discretize_ends_stmt.
Proof. split; [exact fc_discretize_ends | exact dc_discretize_ends]. Qed.

(** ** an interpolated curve passes through its defining points (linear interpolation; for the spline this is
    the assumption on scipy's make_interp_spline, monitored by the correspondence) *)
Definition C16_interpolates_stmt : Prop :=
  forall ts ps i, knots_ok ts ps -> (i < length ts)%nat -> lin_point ts ps (nth i ts 0) = nth i ps vzero.
Theorem C16_interpolates : C16_interpolates_stmt.
Proof. intros ts ps i (H1 & H2 & H3) Hi. exact (lin_point_knot ts ps i H1 H2 H3 Hi). Qed.

(** ** the length between two parameters is additive over a split and does not depend on their order *)
Definition C16_length_additive_stmt : Prop :=
  (* linear-interpolated curve, parameters in either order, any split between them *)
  (forall ts ps a m b, knots_ok ts ps -> in_range ts a -> in_range ts b -> Rmin a b <= m <= Rmax a b ->
     il_length (lin_point ts ps) ts a b = il_length (lin_point ts ps) ts a m + il_length (lin_point ts ps) ts m b)
  (* any interpolated curve (spline included): split at a knot *)
  /\ (forall (f : R -> vec) ts a m b, incr ts -> In m ts -> Rmin a b < m < Rmax a b ->
     il_length f ts a b = il_length f ts a m + il_length f ts m b)
  /\ (forall (f : R -> vec) ts a b, il_length f ts a b = il_length f ts b a)
  (* discrete curve *)
  /\ (forall pts a b c, (a <= b)%nat -> (b <= c)%nat -> (c < length pts)%nat ->
     dc_length pts a c = dc_length pts a b + dc_length pts b c)
  /\ (forall pts a b, dc_length pts a b = dc_length pts b a).
Theorem C16_length_additive : C16_length_additive_stmt.
Proof.
  split; [|split; [|split; [|split]]].
  - intros ts ps a m b (H1 & H2 & H3). exact (il_length_additive ts ps a m b H1 H2 H3).
  - exact il_length_additive_knot.
  - exact il_length_sym.
  - exact dc_length_additive.
  - exact dc_length_sym.
Qed.

(** ** for a piecewise-linear curve the length equals the polyline length: it is the difference of the arc-length
    function of the polyline, which at the k-th knot is the length of the polyline through the first k+1
    points; over the whole curve it is the length of the polyline through all defining points *)
Definition C16_length_polyline_stmt : Prop :=
  (forall ts ps a b, knots_ok ts ps -> in_range ts a -> in_range ts b ->
     il_length (lin_point ts ps) ts a b = Rabs (arclen ts ps b - arclen ts ps a))
  /\ (forall ts ps k, knots_ok ts ps -> (k < length ts)%nat -> arclen ts ps (nth k ts 0) = polylen (firstn (S k) ps))
  /\ (forall ts ps, knots_ok ts ps -> il_length (lin_point ts ps) ts (hd 0 ts) (last ts 0) = polylen ps)
  /\ (forall pts, (1 <= length pts)%nat -> dc_length pts 0 (length pts - 1) = polylen pts)
  /\ (forall pts a b, (a <= b)%nat -> (b < length pts)%nat ->
        dc_length pts a b = polylen (firstn (S b) pts) - polylen (firstn (S a) pts)).
Theorem C16_length_polyline : C16_length_polyline_stmt.
Proof.
  split; [|split; [|split; [|split]]].
  - intros ts ps a b (H1 & H2 & H3). exact (il_length_arclen ts ps a b H1 H2 H3).
  - intros ts ps k (H1 & H2 & H3). exact (arclen_knot ts ps k H1 H2).
  - intros ts ps (H1 & H2 & H3). exact (il_length_full ts ps H1 H2 H3).
  - exact dc_length_full.
  - exact dc_length_cum.
Qed.

(** ** parameterisation by normalised chord length (InterpolatorBase.params, equalize=True): the arc length is
    proportional to the parameter, so the length between two parameters is the fraction |b - a| of the total *)
Definition C16_length_chord_params_stmt : Prop :=
  forall ps a b, 0 < polylen ps -> knots_ok (chord_params ps) ps ->
    in_range (chord_params ps) a -> in_range (chord_params ps) b ->
    il_length (lin_point (chord_params ps) ps) (chord_params ps) a b = Rabs (b - a) * polylen ps.
Theorem C16_length_chord_params : C16_length_chord_params_stmt.
Proof. intros ps a b HL (H1 & H2 & H3). exact (il_length_chord_params ps a b HL H1 H2 H3). Qed.

(** ** the formula of the snapshot (break points i/segments) is not the polyline length when the knots are uneven:
    the full statement for [il_length_old] is refuted by a three-point curve *)
Definition C16_length_old_stmt : Prop :=
  forall ts ps seg kf kt a b,
    incr ts -> length ps = length ts -> S seg = length ts ->
    is_floor (a * INR seg) kf -> is_floor (b * INR seg) kt -> in_range ts a -> in_range ts b -> a <= b ->
    il_length_old (lin_point ts ps) seg kf kt a b = arclen ts ps b - arclen ts ps a.
Theorem C16_length_old_refuted : ~ C16_length_old_stmt.
Proof. exact il_length_old_refuted. Qed.

(** ** closest parameter: exact argmin for the discrete curve; for a function curve the search runs the bounded
    minimiser from the [ns] coarse samples nearest to the query (3 after fixes/C16-2.diff; 1 in the snapshot) and
    returns the best result: it is at least as close as every coarse sample, given that no run of the minimiser
    returns a point farther than its start point *)
Definition C16_closest_discrete_stmt : Prop :=
  (forall pts q, pts <> [] ->
    (dc_closest pts q < length pts)%nat /\
    forall j, (j < length pts)%nat -> dist (dc_point pts (dc_closest pts q)) q <= dist (dc_point pts j) q)
  (* the refactored coarse stage (first entry of the stable argsort) is np.argmin *)
  /\ (forall pts q, pts <> [] -> hd O (argsort (map (fun p => dist p q) pts)) = dc_closest pts q).
Theorem C16_closest_discrete : C16_closest_discrete_stmt.
Proof.
  split; [exact dc_closest_spec|]. intros pts q H. unfold dc_closest.
  destruct (argsort_hd (map (fun p => dist p q) pts)) as (t & E); [destruct pts; [congruence|discriminate]|].
  rewrite E. reflexivity.
Qed.

(** full statement: as close as every point of the curve between the bounds *)
Definition C16_closest_dense_stmt : Prop :=
  forall (minimise : R -> R) (f : R -> vec) lo hi cnt ns q, (1 <= cnt)%nat -> (1 <= ns)%nat ->
    (forall t0, dist (f (minimise t0)) q <= dist (f t0) q) ->
    forall t, lo <= t <= hi -> dist (f (fc_closest minimise f lo hi cnt ns q)) q <= dist (f t) q.
(** proved part: every start is a coarse sample and the first one is the nearest sample; the result is the result
    of one of the runs and at least as close as the result of every run - so never farther than what the
    single-start search of the snapshot returns, which is the model with one start; and, for a minimiser that does
    not return a point farther than its start, as close as EVERY coarse sample *)
Definition C16_closest_dense_partial_stmt : Prop :=
  forall (minimise : R -> R) (f : R -> vec) lo hi cnt ns q, (1 <= cnt)%nat -> (1 <= ns)%nat ->
    (forall s, In s (fc_starts f lo hi cnt ns q) -> exists k, (k < cnt)%nat /\ s = lin_at lo hi cnt k)
    /\ (exists t, fc_starts f lo hi cnt ns q = fc_coarse f lo hi cnt q :: t)
    /\ (exists s, In s (fc_starts f lo hi cnt ns q) /\ fc_closest minimise f lo hi cnt ns q = minimise s)
    /\ (forall s, In s (fc_starts f lo hi cnt ns q) ->
          dist (f (fc_closest minimise f lo hi cnt ns q)) q <= dist (f (minimise s)) q)
    /\ dist (f (fc_closest minimise f lo hi cnt ns q)) q <= dist (f (minimise (fc_coarse f lo hi cnt q))) q
    /\ fc_closest minimise f lo hi cnt 1 q = minimise (fc_coarse f lo hi cnt q)
    /\ ((forall t0, dist (f (minimise t0)) q <= dist (f t0) q) ->
        forall j, (j < cnt)%nat -> dist (f (fc_closest minimise f lo hi cnt ns q)) q <= dist (f (lin_at lo hi cnt j)) q).
Theorem C16_closest_dense_partial : C16_closest_dense_partial_stmt.
Proof.
  intros minimise f lo hi cnt ns q Hc Hn.
  split; [intros s; exact (fc_starts_samples f lo hi cnt ns q s)|].
  split; [exact (fc_starts_hd f lo hi cnt ns q Hc Hn)|].
  split; [exact (proj1 (fc_closest_runs minimise f lo hi cnt ns q Hc Hn))|].
  split; [exact (proj2 (fc_closest_runs minimise f lo hi cnt ns q Hc Hn))|].
  split; [exact (fc_closest_not_worse minimise f lo hi cnt ns q Hc Hn)|].
  split; [exact (fc_closest_one minimise f lo hi cnt q Hc)|].
  exact (fc_closest_coarse minimise f lo hi cnt ns q Hc Hn).
Qed.

(** for a line curve the exact optimum over the bounds is the clamped projection [line_topt]; the correspondence
    certifies on every line-curve query that the implementation's result is within 1e-4 x extent of it
    ([qnot_farther] against [qline_topt], which computes [line_topt]) *)
Definition C16_closest_line_stmt : Prop :=
  (forall p1 p2 lo hi q t, 0 < norm2 (vsub p2 p1) -> lo <= hi -> lo <= t <= hi ->
     dist (line_point p1 p2 (line_topt p1 p2 lo hi q)) q <= dist (line_point p1 p2 t) q)
  /\ (forall p1 p2 lo hi q, ~ (qn2 (qvsub p2 p1) == 0)%Q -> (lo <= hi)%Q ->
     Q2R (qline_topt p1 p2 lo hi q) = line_topt (q2v p1) (q2v p2) (Q2R lo) (Q2R hi) (q2v q)).
Theorem C16_closest_line : C16_closest_line_stmt.
Proof. split; [exact line_closest_opt | exact qline_topt_sound]. Qed.

(** for a linear-interpolated curve [pl_mind2] is a lower bound of the squared distance from the query to every
    point of the curve (it is the exact distance to the polyline); a passed certificate of the correspondence
    ([qnot_farther] against [qpl_mind2]) means that the implementation's result is at most [tol] farther from the
    query than every point of the curve *)
Definition C16_closest_linear_stmt : Prop :=
  (forall ts ps q t m2, knots_ok ts ps -> distinct_consecutive ps -> in_range ts t ->
     pl_mind2 ps q = Some m2 -> m2 <= norm2 (vsub (lin_point ts ps t) q))
  /\ (forall ts pts q x tol m2 t,
     qincr ts -> length pts = length ts -> (2 <= length ts)%nat -> qdistinct_consecutive pts ->
     qpl_mind2 pts q = Some m2 -> qnot_farther tol x q m2 = true -> in_range (map Q2R ts) t ->
     dist (q2v x) (q2v q) <= dist (lin_point (map Q2R ts) (map q2v pts) t) (q2v q) + Q2R tol).
Theorem C16_closest_linear : C16_closest_linear_stmt.
Proof.
  split.
  - intros ts ps q t m2 (H1 & H2 & H3) Hd Ht Hm. exact (pl_mind2_opt ts ps q t m2 H1 H2 H3 Hd Ht Hm).
  - exact qpl_certificate.
Qed.

(** for a circle curve (unit normal [k]) the result [r] is at most [circle_defect] farther from the query than
    every point of the whole circle; the correspondence bounds [circle_defect] by 1e-4 x extent on every near
    query with the [interval] tactic *)
Definition C16_closest_circle_stmt : Prop :=
  forall o rim k q r t, norm2 k = 1 ->
    dist (circle_point_k o rim k r) q <= dist (circle_point_k o rim k t) q + circle_defect o rim k q r.
Theorem C16_closest_circle : C16_closest_circle_stmt.
Proof. exact circle_defect_opt. Qed.

(** ** an edge snapped to a curve: n points, the k-th is the curve point at a parameter between those of the two
    vertices, running from the first vertex to the second; on a discrete curve the points strictly between the
    two indices in that order.  (The edge's length is [get_length] between the two parameters by definition.) *)
Definition C16_edge_on_curve_stmt : Prop :=
  (forall (f : R -> vec) ps pe n,
     length (edge_points f ps pe n) = n /\
     forall k d, (k < n)%nat ->
       nth k (edge_points f ps pe n) d = f (lin_at ps pe (n + 2) (S k))
       /\ Rmin ps pe <= lin_at ps pe (n + 2) (S k) <= Rmax ps pe
       /\ (ps <= pe -> lin_at ps pe (n + 2) k <= lin_at ps pe (n + 2) (S k))
       /\ (pe <= ps -> lin_at ps pe (n + 2) (S k) <= lin_at ps pe (n + 2) k))
  /\ (forall pts a b, (a < length pts)%nat -> (b < length pts)%nat ->
     length (dc_edge_points pts a b) = (Nat.max a b - Nat.min a b - 1)%nat /\
     forall k, (S k < Nat.max a b - Nat.min a b)%nat ->
       nth k (dc_edge_points pts a b) vzero = dc_point pts (if (a <=? b)%nat then a + S k else a - S k)).
Theorem C16_edge_on_curve : C16_edge_on_curve_stmt.
Proof.
  split.
  - intros f ps pe n. split; [exact (edge_points_length f ps pe n)|].
    intros k d Hk. split; [exact (edge_points_nth f ps pe n k d Hk)|].
    split; [apply lin_at_between; lia|]. apply lin_at_mono. lia.
  - intros pts a b Ha Hb. split; [exact (dc_edge_points_length pts a b Ha Hb)|].
    intros k Hk. exact (dc_edge_points_nth pts a b k Ha Hb Hk).
Qed.

(** ** the rational evaluators of the correspondence compute the model: what a case file checks with vm_compute over
    Q is a statement about the real-valued model on the images [Q2R] / [q2v] of its (exact binary64) inputs *)
Definition C16_corr_sound_stmt : Prop :=
  (* points of the linear-interpolated and of the line curve, parameters of linspace, knots between two parameters *)
  (forall ts ps t, qincr ts -> q2v (qlin_point ts ps t) = lin_point (map Q2R ts) (map q2v ps) (Q2R t))
  /\ (forall p1 p2 t, q2v (qline_point p1 p2 t) = line_point (q2v p1) (q2v p2) (Q2R t))
  /\ (forall a b n, (2 <= n)%nat -> map Q2R (qlinspace a b n) = linspace (Q2R a) (Q2R b) n)
  /\ (forall ts lo hi, map Q2R (qil_params ts lo hi) = il_params (map Q2R ts) (Q2R lo) (Q2R hi))
  (* the discrete curve is evaluated on rational points by the model's own (polymorphic) list functions *)
  /\ (forall pts a b, map q2v (dc_discretize pts a b) = dc_discretize (map q2v pts) a b)
  /\ (forall pts a b, map q2v (dc_edge_points pts a b) = dc_edge_points (map q2v pts) a b)
  /\ (forall pts q, dc_closest (map q2v pts) (q2v q) = qclosest_idx pts q)
  /\ (forall pts q ns, firstn ns (argsort (map (fun p => dist p (q2v q)) (map q2v pts))) = qstart_idxs pts q ns)
  (* comparisons: a passed check bounds the distance / the error of the length in the reals *)
  /\ (forall tol l m, (0 <= tol)%Q -> qclose_list tol l m = true -> close_list (Q2R tol) (map q2v l) (map q2v m))
  /\ (forall tol l L, qlen_ok tol l L = true -> Rabs (polylen (map q2v l) - Q2R L) <= Q2R tol)
  /\ (forall tol l L, qlen_ok_cd tol l L = true -> Rabs (polylen (map q2v l) - Q2R L) <= Q2R tol)
  /\ (forall tol x q m2, qnot_farther tol x q m2 = true -> dist (q2v x) (q2v q) <= sqrt (Q2R m2) + Q2R tol).
Theorem C16_corr_sound : C16_corr_sound_stmt.
Proof.
  repeat split.
  - exact qlin_point_sound.
  - exact qline_point_sound.
  - exact qlinspace_sound.
  - exact qil_params_sound.
  - intros. apply dc_discretize_map.
  - intros. apply dc_edge_points_map.
  - exact qclosest_idx_sound.
  - exact qstart_idxs_sound.
  - intros tol l m H. exact (qclose_list_sound tol H l m).
  - exact qlen_ok_sound.
  - exact qlen_ok_cd_sound.
  - exact qnot_farther_sound.
Qed.

(** the hypotheses are satisfiable *)
Example C16_knots_ok_example : knots_ok old_ts old_ps /\ in_range old_ts 0 /\ in_range old_ts (1 / 2) /\ in_range old_ts 1.
Proof.
  unfold knots_ok, in_range, old_ts, old_ps. simpl.
  repeat split; try lia; try lra.
Qed.

Example C16_chord_params_example :
  0 < polylen old_ps /\ knots_ok (chord_params old_ps) old_ps /\ in_range (chord_params old_ps) (1 / 2).
Proof.
  destruct chord_params_example as (H1 & H2 & H3 & H4).
  split; [exact H1|]. split; [|exact H4]. split; [exact H2|]. split; [exact H3|]. rewrite <- H3. simpl. lia.
Qed.

(** the assumption on the minimiser is satisfiable (a minimiser that stays at its start point) *)
Example C16_minimiser_example : forall (f : R -> vec) q t0, dist (f ((fun t : R => t) t0)) q <= dist (f t0) q.
Proof. intros. lra. Qed.

(** ... and so are the hypotheses on the numbers of samples and starts (15 and 3 in the repaired code, 15 and 1 in the
    snapshot) *)
Example C16_closest_counts_example : (1 <= 15)%nat /\ (1 <= 3)%nat /\ (1 <= 1)%nat.
Proof. lia. Qed.

Print Assumptions C16_discretize_ends.
Print Assumptions C16_interpolates.
Print Assumptions C16_length_additive.
Print Assumptions C16_length_polyline.
Print Assumptions C16_length_chord_params.
Print Assumptions C16_length_old_refuted.
Print Assumptions C16_closest_discrete.
Print Assumptions C16_closest_dense_partial.
Print Assumptions C16_closest_line.
Print Assumptions C16_closest_linear.
Print Assumptions C16_closest_circle.
Print Assumptions C16_edge_on_curve.
Print Assumptions C16_corr_sound.
