(** C16 - Curve points, lengths and closest-parameter queries are mutually consistent. *)
From Coq Require Import Reals List Arith.
From CB Require Import Base.Vec3 Model.C16_Curves Proofs.C16_Curves.
Import ListNotations.
Open Scope R_scope.

Definition C16_discretize_ends_stmt : Prop :=
  (forall (f : R -> vec) a b n d, (2 <= n)%nat ->
     hd d (fc_discretize f a b n) = f a /\ last (fc_discretize f a b n) d = f b)
  /\ (forall pts a b, (a < length pts)%nat -> (b < length pts)%nat ->
     hd vzero (dc_discretize pts a b) = dc_point pts a /\ last (dc_discretize pts a b) vzero = dc_point pts b).
Theorem C16_discretize_ends : C16_discretize_ends_stmt.
Proof. split; [exact fc_discretize_ends | exact dc_discretize_ends]. Qed.

Print Assumptions C16_discretize_ends.
