(** C16 - Curve points, lengths and closest-parameter queries are mutually consistent.

    Statements about the model Model/C16_Curves.v (transcribed from construct/curves/*.py, items/edges/curve.py,
    construct/edges.py; tied to the code by the correspondence of harness/props/C16.py on every run).
    [lin_point ts ps] is the linear-interpolated curve through the points [ps] at the knots [ts] (the
    interpolator's own parameters), [il_length] the repaired InterpolatedCurveBase.get_length, [il_length_old]
    the formula of the snapshot, [dc_*] the discrete curve, [fc_*] any curve given by a function. *)
From Coq Require Import Reals List Arith Lia Lra.
From CB Require Import Base.Vec3 Model.C16_Curves Proofs.C16_Curves Proofs.C16_Length Proofs.C16_Edge.
Import ListNotations.
Open Scope R_scope.

(** the hypotheses on an interpolated curve: strictly increasing knots, one point per knot, at least one segment *)
Definition knots_ok (ts : list R) (ps : list vec) : Prop :=
  incr ts /\ length ps = length ts /\ (2 <= length ts)%nat.

(** ** discretising between two parameters starts and ends at the curve's points for those parameters *)
Definition C16_discretize_ends_stmt : Prop :=
  (forall (f : R -> vec) a b n d, (2 <= n)%nat ->
     hd d (fc_discretize f a b n) = f a /\ last (fc_discretize f a b n) d = f b)
  /\ (forall pts a b, (a < length pts)%nat -> (b < length pts)%nat ->
     hd vzero (dc_discretize pts a b) = dc_point pts a /\ last (dc_discretize pts a b) vzero = dc_point pts b).
Theorem C16_discretize_ends : C16_discretize_ends_stmt.
Proof. split; [exact fc_discretize_ends | exact dc_discretize_ends]. Qed.

(** ** an interpolated curve passes through its defining points (linear interpolation; for the spline this is
    the assumption on scipy's make_interp_spline, monitored by the correspondence) *)
Definition C16_interpolates_stmt : Prop :=
  forall ts ps i, knots_ok ts ps -> (i < length ts)%nat -> lin_point ts ps (nth i ts 0) = nth i ps vzero.
Theorem C16_interpolates : C16_interpolates_stmt.
Proof. intros ts ps i (H1 & H2 & H3) Hi. exact (lin_point_knot ts ps i H1 H2 H3 Hi). Qed.

(** ** the length between two parameters is additive over a split and does not depend on their order *)
Definition C16_length_additive_stmt : Prop :=
  (* linear-interpolated curve, parameters in either order, any split between them *)
  (forall ts ps a m b, knots_ok ts ps -> in_range ts a -> in_range ts b -> Rmin a b <= m <= Rmax a b ->
     il_length (lin_point ts ps) ts a b = il_length (lin_point ts ps) ts a m + il_length (lin_point ts ps) ts m b)
  (* any interpolated curve (spline included): split at a knot *)
  /\ (forall (f : R -> vec) ts a m b, incr ts -> In m ts -> Rmin a b < m < Rmax a b ->
     il_length f ts a b = il_length f ts a m + il_length f ts m b)
  /\ (forall (f : R -> vec) ts a b, il_length f ts a b = il_length f ts b a)
  (* discrete curve *)
  /\ (forall pts a b c, (a <= b)%nat -> (b <= c)%nat -> (c < length pts)%nat ->
     dc_length pts a c = dc_length pts a b + dc_length pts b c)
  /\ (forall pts a b, dc_length pts a b = dc_length pts b a).
Theorem C16_length_additive : C16_length_additive_stmt.
Proof.
  split; [|split; [|split; [|split]]].
  - intros ts ps a m b (H1 & H2 & H3). exact (il_length_additive ts ps a m b H1 H2 H3).
  - exact il_length_additive_knot.
  - exact il_length_sym.
  - exact dc_length_additive.
  - exact dc_length_sym.
Qed.

(** ** for a piecewise-linear curve the length equals the polyline length: it is the difference of the arc-length
    function of the polyline, which at the k-th knot is the length of the polyline through the first k+1
    points; over the whole curve it is the length of the polyline through all defining points *)
Definition C16_length_polyline_stmt : Prop :=
  (forall ts ps a b, knots_ok ts ps -> in_range ts a -> in_range ts b ->
     il_length (lin_point ts ps) ts a b = Rabs (arclen ts ps b - arclen ts ps a))
  /\ (forall ts ps k, knots_ok ts ps -> (k < length ts)%nat -> arclen ts ps (nth k ts 0) = polylen (firstn (S k) ps))
  /\ (forall ts ps, knots_ok ts ps -> il_length (lin_point ts ps) ts (hd 0 ts) (last ts 0) = polylen ps)
  /\ (forall pts, (1 <= length pts)%nat -> dc_length pts 0 (length pts - 1) = polylen pts)
  /\ (forall pts a b, (a <= b)%nat -> (b < length pts)%nat ->
        dc_length pts a b = polylen (firstn (S b) pts) - polylen (firstn (S a) pts)).
Theorem C16_length_polyline : C16_length_polyline_stmt.
Proof.
  split; [|split; [|split; [|split]]].
  - intros ts ps a b (H1 & H2 & H3). exact (il_length_arclen ts ps a b H1 H2 H3).
  - intros ts ps k (H1 & H2 & H3). exact (arclen_knot ts ps k H1 H2).
  - intros ts ps (H1 & H2 & H3). exact (il_length_full ts ps H1 H2 H3).
  - exact dc_length_full.
  - exact dc_length_cum.
Qed.

(** ** the formula of the snapshot (break points i/segments) is not the polyline length when the knots are uneven:
    the full statement for [il_length_old] is refuted by a three-point curve *)
Definition C16_length_old_stmt : Prop :=
  forall ts ps seg kf kt a b,
    incr ts -> length ps = length ts -> S seg = length ts ->
    is_floor (a * INR seg) kf -> is_floor (b * INR seg) kt -> in_range ts a -> in_range ts b -> a <= b ->
    il_length_old (lin_point ts ps) seg kf kt a b = arclen ts ps b - arclen ts ps a.
Theorem C16_length_old_refuted : ~ C16_length_old_stmt.
Proof. exact il_length_old_refuted. Qed.

(** ** closest parameter: exact argmin for the discrete curve; for a function curve the result is at least as close
    as every coarse sample, given that the minimiser does not return a point farther than its start point *)
Definition C16_closest_discrete_stmt : Prop :=
  forall pts q, pts <> [] ->
    (dc_closest pts q < length pts)%nat /\
    forall j, (j < length pts)%nat -> dist (dc_point pts (dc_closest pts q)) q <= dist (dc_point pts j) q.
Theorem C16_closest_discrete : C16_closest_discrete_stmt.
Proof. exact dc_closest_spec. Qed.

(** full statement: as close as every point of the curve between the bounds *)
Definition C16_closest_dense_stmt : Prop :=
  forall (minimise : R -> R) (f : R -> vec) lo hi cnt q, (1 <= cnt)%nat ->
    (forall t0, dist (f (minimise t0)) q <= dist (f t0) q) ->
    forall t, lo <= t <= hi -> dist (f (fc_closest minimise f lo hi cnt q)) q <= dist (f t) q.
(** proved part: as close as every coarse sample *)
Definition C16_closest_dense_partial_stmt : Prop :=
  forall (minimise : R -> R) (f : R -> vec) lo hi cnt q, (1 <= cnt)%nat ->
    (forall t0, dist (f (minimise t0)) q <= dist (f t0) q) ->
    forall j, (j < cnt)%nat -> dist (f (fc_closest minimise f lo hi cnt q)) q <= dist (f (lin_at lo hi cnt j)) q.
Theorem C16_closest_dense_partial : C16_closest_dense_partial_stmt.
Proof. exact fc_closest_coarse. Qed.

(** ** an edge snapped to a curve: n points, the k-th is the curve point at a parameter between those of the two
    vertices, running from the first vertex to the second; on a discrete curve the points strictly between the
    two indices in that order.  (The edge's length is [get_length] between the two parameters by definition.) *)
Definition C16_edge_on_curve_stmt : Prop :=
  (forall (f : R -> vec) ps pe n,
     length (edge_points f ps pe n) = n /\
     forall k d, (k < n)%nat ->
       nth k (edge_points f ps pe n) d = f (lin_at ps pe (n + 2) (S k))
       /\ Rmin ps pe <= lin_at ps pe (n + 2) (S k) <= Rmax ps pe
       /\ (ps <= pe -> lin_at ps pe (n + 2) k <= lin_at ps pe (n + 2) (S k))
       /\ (pe <= ps -> lin_at ps pe (n + 2) (S k) <= lin_at ps pe (n + 2) k))
  /\ (forall pts a b, (a < length pts)%nat -> (b < length pts)%nat ->
     length (dc_edge_points pts a b) = (Nat.max a b - Nat.min a b - 1)%nat /\
     forall k, (S k < Nat.max a b - Nat.min a b)%nat ->
       nth k (dc_edge_points pts a b) vzero = dc_point pts (if (a <=? b)%nat then a + S k else a - S k)).
Theorem C16_edge_on_curve : C16_edge_on_curve_stmt.
Proof.
  split.
  - intros f ps pe n. split; [exact (edge_points_length f ps pe n)|].
    intros k d Hk. split; [exact (edge_points_nth f ps pe n k d Hk)|].
    split; [apply lin_at_between; lia|]. apply lin_at_mono. lia.
  - intros pts a b Ha Hb. split; [exact (dc_edge_points_length pts a b Ha Hb)|].
    intros k Hk. exact (dc_edge_points_nth pts a b k Ha Hb Hk).
Qed.

(** the hypotheses are satisfiable *)
Example C16_knots_ok_example : knots_ok old_ts old_ps /\ in_range old_ts 0 /\ in_range old_ts (1 / 2) /\ in_range old_ts 1.
Proof.
  unfold knots_ok, in_range, old_ts, old_ps. simpl.
  repeat split; try lia; try lra.
Qed.

Print Assumptions C16_discretize_ends.
Print Assumptions C16_interpolates.
Print Assumptions C16_length_additive.
Print Assumptions C16_length_polyline.
Print Assumptions C16_length_old_refuted.
Print Assumptions C16_closest_discrete.
Print Assumptions C16_closest_dense_partial.
Print Assumptions C16_edge_on_curve.
