(** C09 - Transforming or copying an entity equals transforming its output geometry.

    Model: Model/C09_Transform.v (leaves, heap graph, traversal, output functions), tied to /repo by
    (U) the call-log correspondence of the traversal, (N) the interval correspondence of the leaves and
    (F) the tables of Gen/C09/Tables.v regenerated on every run. *)
From Coq Require Import Reals Lra List Bool Arith String.
From CB Require Import Base.Vec3 Model.C09_Transform Proofs.C09_Leaves Proofs.C09_Commute Proofs.C09_Equivariance Proofs.C09_Traverse Proofs.C09_Heap Proofs.C09_ArcLength Proofs.C09_Main Proofs.C09_Output.
From CB Require Import Gen.C09.Tables.
From CB Require Import Proofs.SourceEqTac Gen.C09.Source Proofs.C09_SourceEq.
From CB Require Model.C09_Sphere Proofs.C09_Sphere.
Import ListNotations.
Open Scope R_scope.

(** ** 1. every leaf operation is the affine map it names
    (non-unit axes and normals, arbitrary origins; Point and Array alike) *)
Definition C09_leaf_affine_stmt : Prop :=
  forall t p, valid t -> leaf_point t p = image_pos t p /\ leaf_row t p = image_pos t p.
Theorem C09_leaf_affine : C09_leaf_affine_stmt.
Proof. exact M09_leaf_affine. Qed.

(** ** 2. the maps named are the textbook ones: a rotation fixes its axis, keeps distances and turns
    every vector perpendicular to the axis by the angle; a reflection fixes its plane, sends the normal
    to its opposite, is an involution and keeps distances *)
Definition C09_rotation_spec_stmt : Prop :=
  forall th a o, 0 < norm2 a ->
    let Rm := image_pos (TRotate th a o) in
    let Rl := lin_of (TRotate th a o) in
    (forall m, Rm (vadd o (vscale m a)) = vadd o (vscale m a)) /\
    (forall x y, dot (vsub (Rm x) (Rm y)) (vsub (Rm x) (Rm y)) = dot (vsub x y) (vsub x y)) /\
    (forall v, dot (unitv a) v = 0 -> dot v (Rl v) = cos th * dot v v /\ dot (unitv a) (cross v (Rl v)) = sin th * dot v v).
Definition C09_reflection_spec_stmt : Prop :=
  forall n o, 0 < norm2 n ->
    let Hm := image_pos (TMirror n o) in
    (forall x, dot (vsub x o) n = 0 -> Hm x = x) /\
    Hm (vadd o n) = vsub o n /\
    (forall x, Hm (Hm x) = x) /\
    (forall x y, dot (vsub (Hm x) (Hm y)) (vsub (Hm x) (Hm y)) = dot (vsub x y) (vsub x y)).


Theorem C09_rotation_spec : C09_rotation_spec_stmt.
Proof. exact M09_rotation_spec. Qed.

Theorem C09_reflection_spec : C09_reflection_spec_stmt.
Proof. exact M09_reflection_spec. Qed.

(** ** 3. every transformation is a similarity x -> k Q x + b; direction quantities (arc axes) take the
    linear part only - they are rotated / reflected (with the sense flip of an improper map) but never
    displaced, whatever the origin *)
Definition C09_similarity_stmt : Prop :=
  forall t, valid t ->
    simil (lin_of t) (ratio_of t) (sigma_of t) /\ forall p, image_pos t p = vadd (lin_of t p) (image_pos t vzero).
Theorem C09_similarity : C09_similarity_stmt.
Proof. exact M09_similarity. Qed.

Definition C09_direction_linear_stmt : Prop :=
  forall t a, valid t ->
    image_axis t a = vscale (sigma_of t / ratio_of t) (lin_of t a) /\ image_axis t a = image_axis (zero_origin t) a.
Theorem C09_direction_linear : C09_direction_linear_stmt.
Proof. exact M09_direction_linear. Qed.

(** ** 4. commutation at heap level: when a transformation reaches an alias-free entity through `parts`,
    every position leaf ends as its affine image, every Angle axis as the image of a direction, and
    nothing else changes *)
Definition C09_commute_stmt : Prop :=
  forall t n h, valid t -> alias_free n = true ->
    (forall r i, In (r, i) (leaves n) -> role_ok r (h i)) ->
    let h' := run_visits t (visits (kind_of t) n) h in
    (forall r i, In (r, i) (leaves n) -> h' i = image_cell t r (h i)) /\
    (forall j, ~ In j (map snd (leaves n)) -> h' j = h j).
Theorem C09_commute : C09_commute_stmt.
Proof. exact M09_commute. Qed.

(** without alias-freeness the statement is false: a leaf reachable twice is moved twice (the shared face
    of the sphere shapes before fix C09-5) *)
Definition C09_commute_needs_alias_free_stmt : Prop :=
  ~ (forall t ls h, valid t -> (forall r i, In (r, i) ls -> role_ok r (h i)) ->
       forall r i, In (r, i) ls ->
         run_visits t (flat_map (leaf_visits (kind_of t)) ls) h i = image_cell t r (h i)).
Theorem C09_commute_needs_alias_free : C09_commute_needs_alias_free_stmt.
Proof. exact M09_commute_needs_alias_free. Qed.

(** ** 4b. the traversals that the call-log correspondence ties to the code (entity.method(...) and
    entity.transform([...])) make exactly the leaf calls of [visits], in the same order; what they add is the
    unobservable bookkeeping of Operation.invert.  With fix C09-9 entity.transform([...]) is the sequence of method
    calls on the entity itself, so this holds for every entity - a bare Angle included (the former exception). *)
Definition C09_traversal_stmt : Prop :=
  (forall k n, filter observable (method_visits k n) = visits k n) /\
  (forall k n, k <> KMirror -> method_visits k n = visits k n) /\
  (forall k n, filter observable (list_visits k n) = visits k n).
Theorem C09_traversal : C09_traversal_stmt.
Proof. exact M09_traversal. Qed.

Definition C09_list_on_angle_stmt : Prop :=
  forall k i, filter observable (list_visits k (NAngle i)) = visits k (NAngle i).
Theorem C09_list_on_angle : C09_list_on_angle_stmt.
Proof. exact M09_list_on_angle. Qed.

(** a transformation list is the sequence of method calls on the entity itself (own overrides included); the one
    exception, pinned by the library's tests: an operation transformed through a list is mirrored but not inverted
    (no face swap, no side-edge reversal) - operations inside a shape or stack are inverted as by a method call *)
Definition C09_list_is_method_stmt : Prop :=
  (forall k n, top_oper n = false -> list_visits k n = method_visits k n /\ list_tree k n = method_tree k n) /\
  (forall k b t s, list_visits k (NOper b t s) = visits k (NOper b t s) /\ list_tree k (NOper b t s) = NOper b t s) /\
  (forall k n, k <> KMirror -> list_visits k n = method_visits k n /\ list_tree k n = method_tree k n).
Theorem C09_list_is_method : C09_list_is_method_stmt.
Proof. exact M09_list_is_method. Qed.

(** ** 4c. commutation at heap level for exactly the traversals that the correspondence ties to the code:
    after entity.translate/rotate/scale/mirror(...) on an alias-free entity every position leaf and every Angle
    axis holds its image; a point array holds its image, possibly with the rows in reverse order (side edge of an
    operation that a reflection turned over, see C09_reverse); nothing else changes.  The same for
    entity.transform([...]), for every entity. *)
Definition C09_method_commute_stmt : Prop :=
  forall t n h, valid t -> alias_free n = true ->
    (forall r i, In (r, i) (leaves n) -> role_ok r (h i)) ->
    let h' := run_visits t (method_visits (kind_of t) n) h in
    (forall r i, In (r, i) (leaves n) -> h' i = image_cell t r (h i) \/ h' i = rev_cell (image_cell t r (h i))) /\
    (forall r i, In (r, i) (leaves n) -> r <> RArr -> h' i = image_cell t r (h i)) /\
    (forall j, ~ In j (map snd (leaves n)) -> h' j = h j).
Theorem C09_method_commute : C09_method_commute_stmt.
Proof. exact method_commute. Qed.

Definition C09_list_commute_stmt : Prop :=
  forall t n h, valid t -> alias_free n = true ->
    (forall r i, In (r, i) (leaves n) -> role_ok r (h i)) ->
    let h' := run_visits t (list_visits (kind_of t) n) h in
    (forall r i, In (r, i) (leaves n) -> h' i = image_cell t r (h i) \/ h' i = rev_cell (image_cell t r (h i))) /\
    (forall r i, In (r, i) (leaves n) -> r <> RArr -> h' i = image_cell t r (h i)) /\
    (forall j, ~ In j (map snd (leaves n)) -> h' j = h j).
Theorem C09_list_commute : C09_list_commute_stmt.
Proof. exact list_commute. Qed.

(** ** 5. any number of transformations (in particular lists of up to three) compose *)
Definition C09_compose_stmt : Prop :=
  forall ts, Forall valid ts -> forall ls h,
    NoDup (map snd ls) -> (forall r i, In (r, i) ls -> role_ok r (h i)) ->
    (forall r i, In (r, i) ls -> run_tfs ts ls h i = image_cells ts r (h i)) /\
    (forall j, ~ In j (map snd ls) -> run_tfs ts ls h j = h j).
Theorem C09_compose : C09_compose_stmt.
Proof. exact M09_compose. Qed.

(** ** 6. output geometry: what is computed from transformed leaves is the transformed output:
    straight and polyline/spline lengths scale by |ratio|, the third point of `origin` and `angle` arcs is the
    image of the third point (the axis taken as a direction), and the length of a (non-degenerate) three-point
    arc scales by |ratio|. *)
Definition C09_output_stmt : Prop :=
  forall t, valid t ->
    let A := image_pos t in let D := image_axis t in let k := ratio_of t in
    (forall x y, norm (vsub (A x) (A y)) = Rabs k * norm (vsub x y)) /\
    (forall l, polyline_length (map A l) = Rabs k * polyline_length l) /\
    (forall p1 p2 c, arc_from_origin (A p1) (A p2) (A c) = A (arc_from_origin p1 p2 c)) /\
    (forall p1 p2 t2 a, arc_from_theta (A p1) (A p2) t2 (D a) = A (arc_from_theta p1 p2 t2 a)) /\
    (forall ps pb pe, noncollinear ps pb pe ->
       arc_length_3point (A ps) (A pb) (A pe) = Rabs k * arc_length_3point ps pb pe).
Theorem C09_output : C09_output_stmt.
Proof. exact output_full. Qed.

(** reversal of a side edge by Operation.invert keeps the arc (axis perpendicular to the chord) and maps
    a reversed point list to the reversed image *)
Definition C09_reverse_stmt : Prop :=
  (forall p1 p2 t2 a, dot (vsub p2 p1) a = 0 ->
     norm (vsub (theta_center p1 p2 t2 a) p2) = norm (vsub (theta_center p1 p2 t2 a) p1) ->
     arc_from_theta p2 p1 t2 (vopp a) = arc_from_theta p1 p2 t2 a) /\
  (forall t l, rev (map (image_pos t) l) = map (image_pos t) (rev l)).
Theorem C09_reverse : C09_reverse_stmt.
Proof. exact M09_reverse. Qed.

(** ** 7. copy(): an entity whose leaves are disjoint from the original's can be transformed without
    touching the original *)
Definition C09_copy_independent_stmt : Prop :=
  forall t k (orig copy : node) h,
    disjointb (map snd (leaves orig)) (map snd (leaves copy)) = true ->
    forall i, In i (map snd (leaves orig)) ->
      run_visits t (visits k copy) h i = h i /\ run_visits t (method_visits k copy) h i = h i.
Theorem C09_copy_independent : C09_copy_independent_stmt.
Proof.
  intros t k orig copy h Hd i Hi.
  split; [exact (M09_copy_independent t k orig copy h Hd i Hi) | exact (copy_independent_method t k orig copy h Hd i Hi)].
Qed.

(** ** 8. finite facts about the working tree (tables regenerated in this run) *)
Ltac finite_forall tab chk :=
  let H := fresh "H" in
  assert (H : forallb chk tab = true) by (vm_cast_no_check (eq_refl true));
  rewrite forallb_forall in H.

(** every entity class of the catalogue builds alias-free objects (so C09_commute applies to it) ... *)
Definition C09_alias_free_classes_stmt : Prop :=
  forall c n n', In (c, n, n') tab_class_graphs -> alias_free n = true.
Theorem C09_alias_free_classes : C09_alias_free_classes_stmt.
Proof.
  finite_forall tab_class_graphs (fun x : string * node * node => alias_free (snd (fst x))).
  intros c n n' Hin. exact (H _ Hin).
Qed.

(** ... and copy() gives an object of the same structure with fresh leaves (so C09_copy_independent applies) *)
Fixpoint same_shape (a b : node) {struct a} : bool :=
  match a, b with
  | NPoint _, NPoint _ => true
  | NArray _, NArray _ => true
  | NAngle _, NAngle _ => true
  | NGroup l, NGroup m =>
      (fix go (l m : list node) := match l, m with [], [] => true | x :: l', y :: m' => same_shape x y && go l' m' | _, _ => false end) l m
  | NOper b1 t1 s1, NOper b2 t2 s2 =>
      same_shape b1 b2 && same_shape t1 t2 &&
      (fix go (l m : list node) := match l, m with [], [] => true | x :: l', y :: m' => same_shape x y && go l' m' | _, _ => false end) s1 s2
  | _, _ => false
  end.
Definition C09_copy_fresh_classes_stmt : Prop :=
  forall c n n', In (c, n, n') tab_class_graphs ->
    same_shape n n' = true /\ alias_free n' = true /\ disjointb (map snd (leaves n)) (map snd (leaves n')) = true.
Theorem C09_copy_fresh_classes : C09_copy_fresh_classes_stmt.
Proof.
  finite_forall tab_class_graphs (fun x : string * node * node =>
    same_shape (snd (fst x)) (snd x) && alias_free (snd x) && disjointb (map snd (leaves (snd (fst x)))) (map snd (leaves (snd x)))).
  intros c n n' Hin. specialize (H _ Hin). simpl in H.
  apply andb_true_iff in H. destruct H as [H H3]. apply andb_true_iff in H. destruct H as [H1 H2]. auto.
Qed.

(** the transformation helpers never write to an array handed to them *)
Definition C09_args_unmodified_stmt : Prop :=
  forall h a f w, In (h, a, f, w) tab_helper_writes -> w = false.
Theorem C09_args_unmodified : C09_args_unmodified_stmt.
Proof.
  finite_forall tab_helper_writes (fun x : string * string * string * bool => negb (snd x)).
  intros h a f w Hin. specialize (H _ Hin). simpl in H. destruct w; [discriminate | reflexivity].
Qed.

Definition C09_tables_nonempty_stmt : Prop :=
  (60 <= List.length tab_class_graphs)%nat /\ (30 <= List.length tab_helper_writes)%nat /\ (20 <= List.length tab_overrides)%nat.
Theorem C09_tables_nonempty : C09_tables_nonempty_stmt.
Proof. vm_compute. repeat split; repeat constructor. Qed.

(** ** the leaf models are the source (translate, scale, mirror)

    Gen/C09/Source.v: the translation (harness/translate_np.py, regenerated from the working tree on every run, fail
    closed) of functions.scale / mirror_matrix / mirror / unit_vector / norm, Point.translate / scale / mirror and
    Array.translate / scale / mirror (an Array row-wise: one row of [self.points]); [origin=None] is a specialisation of
    its own (the [_default] functions).  [Some y] = read in exact real arithmetic, the attribute ([position] / the row
    of [points]) has the value y when the method returns; [None] = no real-number reading (the zero normal of a mirror:
    numpy's nan).  The translated functions equal the leaves of Model/C09_Transform.v for all arguments (mirror: for
    every non-zero normal, i.e. [valid (TMirror n o)], the hypothesis of [C09_leaf_affine]); hence (last conjunct)
    [C09_leaf_affine] is a theorem about the translated source.  rotate / rotation_matrix (scipy.linalg.expm) are NOT
    translated: the rotate leaves stay tied by the sampled interval correspondence. *)
Definition C09_source_is_model_stmt : Prop :=
  (forall tol p r o, src_scale tol p r o = Some (f_scale p r o))
  /\ (forall tol n, exists m, src_mirror_matrix tol n = Some m
        /\ (forall v, s_vM v m = mirror_vM n v) /\ (forall v, s_vM v (s_MT m) = mirror_vMT n v) /\ (forall v, s_Mv m v = mirror_vM n v))
  /\ (forall tol p n o, n <> vzero -> src_mirror tol p n o = Some (f_mirror p n o))
  /\ (forall tol p o, src_mirror tol p vzero o = None)
  /\ (forall tol p d,
        src_Point_translate tol p d = Some (leaf_point (TTranslate d) p)
        /\ src_Array_translate tol p d = Some (leaf_row (TTranslate d) p))
  /\ (forall tol p r o,
        src_Point_scale tol p r o = Some (leaf_point (TScale r o) p)
        /\ src_Array_scale tol p r o = Some (leaf_row (TScale r o) p)
        /\ src_Point_scale_default tol p r = Some (leaf_point (TScale r vzero) p)
        /\ src_Array_scale_default tol p r = Some (leaf_row (TScale r vzero) p))
  /\ (forall tol p n o, valid (TMirror n o) ->
        src_Point_mirror tol p n o = Some (leaf_point (TMirror n o) p)
        /\ src_Array_mirror tol p n o = Some (leaf_row (TMirror n o) p)
        /\ src_Point_mirror_default tol p n = Some (leaf_point (TMirror n vzero) p)
        /\ src_Array_mirror_default tol p n = Some (leaf_row (TMirror n vzero) p))
  /\ (forall tol p d r o n, r <> 0 -> 0 < norm2 n ->
        src_Point_translate tol p d = Some (image_pos (TTranslate d) p)
        /\ src_Array_translate tol p d = Some (image_pos (TTranslate d) p)
        /\ src_Point_scale tol p r o = Some (image_pos (TScale r o) p)
        /\ src_Array_scale tol p r o = Some (image_pos (TScale r o) p)
        /\ src_Point_mirror tol p n o = Some (image_pos (TMirror n o) p)
        /\ src_Array_mirror tol p n o = Some (image_pos (TMirror n o) p)).

Theorem C09_source_is_model : C09_source_is_model_stmt.
Proof.
  split; [exact src_scale_eq|]. split; [exact src_mirror_matrix_eq|]. split; [exact src_mirror_eq|].
  split; [exact src_mirror_zero|].
  split; [intros tol p d; split; [apply src_Point_translate_eq | apply src_Array_translate_eq]|].
  split; [intros tol p r o; split; [|split; [|split]];
          [apply src_Point_scale_eq | apply src_Array_scale_eq | apply src_Point_scale_default_eq | apply src_Array_scale_default_eq]|].
  split.
  - intros tol p n o H. pose proof (nonzero_of_norm2_pos n H) as Hn. split; [|split; [|split]];
      [apply src_Point_mirror_eq | apply src_Array_mirror_eq | apply src_Point_mirror_default_eq | apply src_Array_mirror_default_eq]; exact Hn.
  - intros tol p d r o n Hr H. pose proof (nonzero_of_norm2_pos n H) as Hn.
    destruct (C09_leaf_affine (TTranslate d) p I) as [T1 T2].
    destruct (C09_leaf_affine (TScale r o) p Hr) as [S1 S2].
    destruct (C09_leaf_affine (TMirror n o) p H) as [M1 M2].
    rewrite <- T1 at 1. rewrite <- T2. rewrite <- S1 at 1. rewrite <- S2. rewrite <- M1 at 1. rewrite <- M2.
    split; [|split; [|split; [|split; [|split]]]]; [apply src_Point_translate_eq | apply src_Array_translate_eq | apply src_Point_scale_eq | apply src_Array_scale_eq
                  | apply src_Point_mirror_eq; exact Hn | apply src_Array_mirror_eq; exact Hn].
Qed.

(** the hypotheses are satisfiable *)
Example C09_source_is_model_hyp_sat : valid (TMirror (0, 0, 1) vzero) /\ (2 <> 0).
Proof. split; [unfold valid, norm2; vec_simpl; lra | lra]. Qed.

(** ** 9. the centre (and radius point) of a sphere shape (Model/C09_Sphere.v: a heap of Point objects, operations as
    two faces of references, Operation.mirror = mirror the parts then swap the faces)

    The repaired code (fix 77e7025) keeps the REFERENCE to the Point object at corner 0 of the bottom face of loft 0,
    taken at construction.  For every shape whose references are pairwise distinct ([wf]) and every sequence of
    transformations ([TApply f]: translate / rotate / scale, [TMirror f]: mirror, with arbitrary leaf maps f):
    the kept reference holds the composed image of the centre; the positional lookup of the old code agrees when the
    number of mirrors is even; every other remembered Point object of the shape (the radius point) follows in the same
    way and no other cell is touched; a copy (fresh cells, same reference structure, kept reference remapped) has the
    same centre, follows the transformations applied to it, and leaves the original's centre where it was.

    (the names of Model/C09_Sphere.v - heap, shape, TMirror, run, compose ... - are imported for this section only; they
    would shadow those of Model/C09_Transform.v) *)
Section SphereCentre.
Import CB.Model.C09_Sphere CB.Proofs.C09_Sphere.
Definition C09_sphere_center_follows_stmt : Prop :=
  forall (P : Type) (ts : list (step P)) (sh : shape) (h : heap P) (r : nat) (c : P),
    wf sh = true -> keep_center sh = Some r -> center_by_reference r h = Some c ->
    let st := run ts (sh, h) in
    let cp := shape_copy sh h in
    let st' := run ts cp in
    center_by_reference r (snd st) = Some (compose ts c) /\
    (Nat.even (mirrors ts) = true -> center_by_position (fst st) (snd st) = Some (compose ts c)) /\
    (forall r' c', In r' (shape_refs sh) -> center_by_reference r' h = Some c' ->
       center_by_reference r' (snd st) = Some (compose ts c')) /\
    (forall r', ~ In r' (shape_refs sh) -> center_by_reference r' (snd st) = center_by_reference r' h) /\
    (keep_center (fst cp) = Some (copy_ref h r) /\
     center_by_reference (copy_ref h r) (snd cp) = Some c /\
     center_by_reference (copy_ref h r) (snd st') = Some (compose ts c) /\
     center_by_reference r (snd st') = Some c /\
     (Nat.even (mirrors ts) = true -> center_by_position (fst st') (snd st') = Some (compose ts c))).
Theorem C09_sphere_center_follows : C09_sphere_center_follows_stmt.
Proof. exact sphere_center_follows. Qed.

(** the hypotheses are satisfiable: a miniature of the eighth sphere (core and shell operation, sixteen Point objects) *)
Example C09_sphere_center_follows_hyp_sat :
  wf mini_shape = true /\ four_corners mini_shape = true /\ in_heap mini_shape mini_heap = true /\
  keep_center mini_shape = Some 0%nat /\ center_by_reference 0 mini_heap = Some (0, 0, 0)%Z /\
  center_by_position mini_shape mini_heap = Some (0, 0, 0)%Z.
Proof. exact mini_wf. Qed.

(** the old code: "the positional lookup follows every sequence" is false - after a single mirror (reflection in the
    plane x = 1 of the miniature, or of a copy of it) corner 0 of the bottom face of operation 0 is what was corner 0
    of its top face, (2,0,1), while the kept reference holds the image (2,0,0) of the centre *)
Definition C09_sphere_center_by_position_refuted_stmt : Prop :=
  ~ (forall (ts : list (step pt)) sh h c,
       wf sh = true -> center_by_position sh h = Some c ->
       center_by_position (fst (run ts (sh, h))) (snd (run ts (sh, h))) = Some (compose ts c)) /\
  (let st := run [TMirror mirror_x1] (mini_shape, mini_heap) in
   center_by_reference 0 (snd st) = Some (2, 0, 0)%Z /\ center_by_position (fst st) (snd st) = Some (2, 0, 1)%Z) /\
  (let st := run [TMirror mirror_x1] (shape_copy mini_shape mini_heap) in
   center_by_reference (copy_ref mini_heap 0) (snd st) = Some (2, 0, 0)%Z /\
   center_by_position (fst st) (snd st) = Some (2, 0, 1)%Z).
Theorem C09_sphere_center_by_position_refuted : C09_sphere_center_by_position_refuted_stmt.
Proof. exact center_by_position_refuted. Qed.
End SphereCentre.

Print Assumptions C09_leaf_affine.
Print Assumptions C09_rotation_spec.
Print Assumptions C09_reflection_spec.
Print Assumptions C09_similarity.
Print Assumptions C09_direction_linear.
Print Assumptions C09_commute.
Print Assumptions C09_commute_needs_alias_free.
Print Assumptions C09_traversal.
Print Assumptions C09_list_on_angle.
Print Assumptions C09_list_is_method.
Print Assumptions C09_method_commute.
Print Assumptions C09_list_commute.
Print Assumptions C09_compose.
Print Assumptions C09_output.
Print Assumptions C09_reverse.
Print Assumptions C09_copy_independent.
Print Assumptions C09_alias_free_classes.
Print Assumptions C09_copy_fresh_classes.
Print Assumptions C09_args_unmodified.
Print Assumptions C09_tables_nonempty.
Print Assumptions C09_source_is_model.
Print Assumptions C09_sphere_center_follows.
Print Assumptions C09_sphere_center_by_position_refuted.
