(** C11 - Predefined shapes give right-handed, conformal, fully choppable blockings.

    Gen/C11/Tables.v holds, for every class of the catalogue (DESIGN Appendix E) and every topology
    parameter, what the real constructors and the documented chop calls of /repo produced in this
    run (block vertex lists after Mesh.assemble(), chopped block axes, sketch quad maps and chop
    tables).  The specifications are those of Model/C11_Topo.v against the reference hexahedron of
    Base/Hex.v; they do not mention coordinates, so they hold for every placement at which the
    blocking is the tabulated one (checked by the correspondence).  The geometric half
    (Model/C11_Geom.v) is proved for all placements and sizes. *)
From Coq Require Import List Bool Arith NArith Reals.
From CB Require Import Base.Hex Base.Vec3 Model.C11_Topo Proofs.C11_Topo Model.C11_Geom Proofs.C11_Geom.
From CB Require Import Gen.C11.Tables Gen.C11.GeomConst.
From Coq Require Import Lra.
Import ListNotations.
Open Scope nat_scope.

(* a finite check over a generated table: evaluated exactly once, by the kernel's vm, at Qed *)
Ltac finite_forall tab chk :=
  let H := fresh "H" in
  assert (H : forallb chk tab = true) by (vm_cast_no_check (@eq_refl bool true));
  rewrite forallb_forall in H.

(** ** statements *)

(** any two blocks share nothing, a corner, a full edge or a full side of both (never a diagonal),
    blocks have 8 distinct vertices, the blocking is face-connected, the number of vertices is the
    closed form of the class, vertex ids are exactly 0 .. n-1 *)
Definition C11_conformal_stmt : Prop :=
  forall t, In t tab_shapes ->
    conformal_b (st_blocks t) = true
    /\ (forall j, j < length (st_blocks t) -> freachable (st_blocks t) j)
    /\ st_nverts t = expected_vertices (st_kind t)
    /\ vids_below (st_blocks t) (st_nverts t) = true /\ every_vid_used (st_blocks t) (st_nverts t) = true.

(** consistent handedness: across every shared side the outward cycle of one block is an inward
    cycle of the other, hence one right-handed block makes the whole (face-connected) blocking
    right-handed *)
Definition C11_handedness_stmt : Prop :=
  forall t, In t tab_shapes -> oriented_b (st_blocks t) = true.

(** all quads of every sketch have the same combinatorial orientation: no directed edge is used
    twice, no edge by more than two quads; the quad map has the declared number of points *)
Definition C11_winding_stmt : Prop :=
  forall n sd quads grid chops npts, In (n, sd, quads, grid, chops, npts) tab_sketches ->
    winding_b quads = true /\ manifold_b quads = true
    /\ npts = sketch_points n
    /\ same_set (concat grid) (seq 0 (length quads)) = true /\ length (concat grid) = length quads.

(** the documented chop calls reach every family: every block axis is connected through shared
    wires to an axis that holds a chop (by C02_complete this makes Mesh.write() succeed) *)
Definition C11_choppable_stmt : Prop :=
  forall t, In t tab_shapes -> choppable (st_blocks t) (st_chopped t).

(** a chained / expanded / contracted / filled shape shares with its source exactly the vertices
    of the interface side(s), in the expected number *)
Definition C11_chain_interface_stmt : Prop :=
  forall t, In t tab_shapes -> forall f n, In (f, n) (st_ifaces t) -> iface_ok (st_blocks t) f n = true.

(** the library's AXIS_PAIRS are the edges of the reference hexahedron, axis by axis, positively directed *)
Definition C11_axis_pairs_stmt : Prop :=
  length tab_axis_pairs = 3 /\
  forall a, a < 3 ->
    length (nth a tab_axis_pairs []) = 4 /\
    forall ij, In ij (nth a tab_axis_pairs []) -> In ij (axis_edges a).

(** soundness of the two checkers, for ALL blockings (not only the tabulated ones) *)
Definition C11_checker_sound_stmt : Prop :=
  (forall bs chopped c, check_cert bs chopped c = true -> choppable bs chopped)
  /\ (forall bs chopped S n, closed_b bs S = true -> forallb (fun c => negb (memn c S)) chopped = true ->
        valid_node bs n = true -> memn n S = true -> ~ choppable bs chopped)
  /\ (forall bs n m, adjb bs n m = adjb bs m n)
  /\ (forall bs a b, valid_node bs a = true -> connected bs a b -> connected bs b a)
  /\ (forall bs a b c, connected bs a b -> connected bs b c -> connected bs a c).

(** regression example of the checker's other direction: the chop table shipped for OneCoreDisk
    ([[0],[1,2]]) leaves the radial family of an extruded one-core disk without a chop *)
Definition onecore_blocks : list block :=
  [[0; 1; 2; 3; 8; 9; 10; 11]; [0; 4; 5; 1; 8; 12; 13; 9]; [1; 5; 6; 2; 9; 13; 14; 10];
   [2; 6; 7; 3; 10; 14; 15; 11]; [3; 7; 4; 0; 11; 15; 12; 8]]%N.
Definition C11_onecore_shipped_table_insufficient_stmt : Prop :=
  ~ choppable onecore_blocks [(0, 2); (0, 0); (1, 1); (2, 1)].

(** ** geometry (all placements and sizes) *)

(** blocks lofted from the four-core disk to its copy moved by h along the unit normal n and scaled by
    rho about its centre (Cylinder: rho = 1; Frustum: rho = r2 / r1): for every centre c, radius vector
    u with u.n = 0, u <> 0, every height h > 0 and ratio rho > 0, the Jacobians at all eight corners of
    all twelve blocks are positive *)
Definition C11_disk_jacobian_stmt : Prop :=
  forall (cr dr : R) (c u n : vec) (h rho : R),
    norm2 n = 1%R -> dot u n = 0%R -> (0 < norm2 u)%R -> (0 < h)%R -> (0 < rho)%R ->
    disk_ratios_ok cr dr ->
    forall q, In q four_core_quads -> forall k, k < 4 ->
      (0 < corner_jacobian_bot (disk_point cr dr c u n) (top_pt c (vscale h n) rho) q k)%R
      /\ (0 < corner_jacobian_top (disk_point cr dr c u n) (top_pt c (vscale h n) rho) q k)%R.

(** every outer point lies on the circle of radius |u| about c in the plane through c normal to n, and
    its image in the end sketch on the circle of radius rho |u| about c + h n *)
Definition C11_disk_on_circle_stmt : Prop :=
  forall (cr dr : R) (c u n : vec) (h rho : R), norm2 n = 1%R -> dot u n = 0%R ->
    forall k, 9 <= k <= 16 ->
      let p := disk_point cr dr c u n k in
      let p' := top_pt c (vscale h n) rho p in
      norm2 (vsub p c) = norm2 u /\ dot (vsub p c) n = 0%R
      /\ norm2 (vsub p' (vadd c (vscale h n))) = (rho * rho * norm2 u)%R /\ dot (vsub p' (vadd c (vscale h n))) n = 0%R.

(** the same for the ring with any number of segments >= 3, any radii 0 < ri < ro *)
Definition C11_ring_jacobian_stmt : Prop :=
  forall (nseg : nat) (ri ro : R) (c u n : vec) (h rho : R),
    3 <= nseg -> (0 < ri < ro)%R ->
    norm2 n = 1%R -> dot u n = 0%R -> norm2 u = 1%R -> (0 < h)%R -> (0 < rho)%R ->
    forall i k, k < 4 ->
      (0 < corner_jacobian_bot (ring_point nseg ri ro c u n) (top_pt c (vscale h n) rho) (ring_quad i) k)%R
      /\ (0 < corner_jacobian_top (ring_point nseg ri ro c u n) (top_pt c (vscale h n) rho) (ring_quad i) k)%R.

(** The full geometric statement of the property -- positive corner Jacobians for EVERY class of the
    catalogue at every valid placement -- has no formal model here for Elbow, RevolvedRing, Hemisphere,
    Shell, the joints, the spline sketches and the one-core/wrapped/oval disks; for those it is
    validated by the direct oracle only.  The proved part is [C11_jacobian_partial] below. *)
Definition C11_jacobian_partial_stmt : Prop := C11_disk_jacobian_stmt /\ C11_ring_jacobian_stmt.

(** the runtime values of core_ratio and diagonal_ratio lie in the region the theorem needs *)
Definition C11_disk_ratios_stmt : Prop := disk_ratios_ok tab_core_ratio tab_diagonal_ratio.

(** the quad maps the library uses for FourCoreDisk, HalfDisk (SemiCylinder) and QuarterDisk are, in the
    four-core numbering, quads about which the geometric theorems are proved *)
Definition disk_embedding (n : sketch_name) : option (nat -> nat) :=
  match n with
  | FourCoreDisk => Some (fun k => k) | HalfDisk => Some half_emb | QuarterDisk => Some quarter_emb
  | _ => None
  end.
Definition C11_disk_family_quads_tied_stmt : Prop :=
  forall n sd quads grid chops npts, In (n, sd, quads, grid, chops, npts) tab_sketches ->
    (n = FourCoreDisk -> quads = four_core_quads)
    /\ forall e, disk_embedding n = Some e -> forall q, In q quads -> In (map e q) four_core_quads.

(** ** proofs *)

Theorem C11_conformal : C11_conformal_stmt.
Proof.
  finite_forall tab_shapes tab_conformal.
  intros t Hin. specialize (H _ Hin). unfold tab_conformal in H.
  apply andb_true_iff in H. destruct H as [H H5]. apply andb_true_iff in H. destruct H as [H H4].
  apply andb_true_iff in H. destruct H as [H H3]. apply andb_true_iff in H. destruct H as [H1 H2].
  apply Nat.eqb_eq in H3. split; [exact H1|]. split; [exact (face_connected_sound _ H2)|].
  repeat split; assumption.
Qed.

Theorem C11_handedness : C11_handedness_stmt.
Proof.
  finite_forall tab_shapes tab_oriented. intros t Hin. exact (H _ Hin).
Qed.

Theorem C11_winding : C11_winding_stmt.
Proof.
  finite_forall tab_sketches (fun x : sketch_name * bool * list (list nat) * list (list nat) * list (list nat) * nat =>
    let '(n, sd, quads, grid, chops, npts) := x in
    winding_b quads && manifold_b quads && (npts =? sketch_points n)
    && same_set (concat grid) (seq 0 (length quads)) && (length (concat grid) =? length quads)).
  intros n sd quads grid chops npts Hin. specialize (H _ Hin). cbv beta iota in H.
  apply andb_true_iff in H. destruct H as [H H5]. apply andb_true_iff in H. destruct H as [H H4].
  apply andb_true_iff in H. destruct H as [H H3]. apply andb_true_iff in H. destruct H as [H1 H2].
  apply Nat.eqb_eq in H3, H5. repeat split; assumption.
Qed.

Theorem C11_choppable : C11_choppable_stmt.
Proof.
  finite_forall tab_shapes tab_choppable.
  intros t Hin. apply check_cert_sound with (c := st_cert t). exact (H _ Hin).
Qed.

Theorem C11_chain_interface : C11_chain_interface_stmt.
Proof.
  finite_forall tab_shapes tab_ifaces.
  intros t Hin f n Hf. specialize (H _ Hin). unfold tab_ifaces in H. rewrite forallb_forall in H.
  exact (H _ Hf).
Qed.

Theorem C11_axis_pairs : C11_axis_pairs_stmt.
Proof.
  split; [vm_compute; reflexivity|].
  assert (H : forallb (fun a => (length (nth a tab_axis_pairs []) =? 4)
             && forallb (fun ij => existsb (pair_nat_eqb ij) (axis_edges a)) (nth a tab_axis_pairs [])) [0; 1; 2] = true)
    by (vm_compute; reflexivity).
  rewrite forallb_forall in H.
  intros a Ha. assert (Hin : In a [0; 1; 2]) by (destruct a as [|[|[|a]]]; simpl; auto; exfalso; apply (Nat.lt_irrefl 3); eapply Nat.le_lt_trans; [|exact Ha]; repeat apply le_n_S; apply Nat.le_0_l).
  specialize (H _ Hin). apply andb_true_iff in H. destruct H as [H1 H2]. apply Nat.eqb_eq in H1.
  split; [exact H1|]. intros ij Hij. rewrite forallb_forall in H2. specialize (H2 _ Hij).
  apply existsb_exists in H2. destruct H2 as [e [He Hee]]. unfold pair_nat_eqb in Hee.
  apply andb_true_iff in Hee. destruct Hee as [E1 E2]. apply Nat.eqb_eq in E1, E2.
  destruct ij, e. simpl in *. subst. exact He.
Qed.

Theorem C11_checker_sound : C11_checker_sound_stmt.
Proof.
  repeat split.
  - exact check_cert_sound.
  - exact closed_unchoppable.
  - exact adjb_sym.
  - exact connected_sym.
  - exact connected_trans.
Qed.

Theorem C11_onecore_shipped_table_insufficient : C11_onecore_shipped_table_insufficient_stmt.
Proof.
  apply closed_unchoppable with (S := [(1, 0); (2, 0); (3, 0); (4, 0)]) (n := (1, 0)); vm_compute; reflexivity.
Qed.

Theorem C11_disk_jacobian : C11_disk_jacobian_stmt.
Proof. exact frustum_disk_jacobian_pos. Qed.

Theorem C11_disk_on_circle : C11_disk_on_circle_stmt.
Proof.
  intros cr dr c u n h rho Hn Hu k Hk p p'.
  destruct (disk_outer_on_circle cr dr c u n Hn Hu k Hk) as [E1 E2].
  split; [exact E1|]. split; [exact E2|].
  unfold p', p, disk_point.
  destruct (top_pt_offset c u n (fst (disk_xy cr dr k)) (snd (disk_xy cr dr k)) h rho Hn Hu) as [T1 T2].
  split; [|exact T2]. rewrite T1.
  destruct (plane_pt_offset c u n (fst (disk_xy cr dr k)) (snd (disk_xy cr dr k)) Hn Hu) as [F1 _].
  unfold disk_point in E1. rewrite <- F1, E1. reflexivity.
Qed.

Theorem C11_ring_jacobian : C11_ring_jacobian_stmt.
Proof. exact ring_all_jacobian_pos. Qed.

Theorem C11_jacobian_partial : C11_jacobian_partial_stmt.
Proof. split; [exact frustum_disk_jacobian_pos | exact ring_all_jacobian_pos]. Qed.

Theorem C11_disk_ratios : C11_disk_ratios_stmt.
Proof.
  apply ratios_ok_sufficient; unfold tab_core_ratio, tab_diagonal_ratio, dy; cbv [powerRZ];
    repeat match goal with |- context [Pos.to_nat ?p] =>
      let n := eval vm_compute in (Pos.to_nat p) in change (Pos.to_nat p) with n end; lra.
Qed.

Theorem C11_disk_family_quads_tied : C11_disk_family_quads_tied_stmt.
Proof.
  finite_forall tab_sketches (fun x : sketch_name * bool * list (list nat) * list (list nat) * list (list nat) * nat =>
    let '(n, sd, quads, grid, chops, npts) := x in
    match n with FourCoreDisk => quads_eqb quads four_core_quads | _ => true end
    && match disk_embedding n with
       | Some e => forallb (fun q => existsb (fun r => quads_eqb [map e q] [r]) four_core_quads) quads
       | None => true
       end).
  intros n sd quads grid chops npts Hin. specialize (H _ Hin). cbv beta iota in H.
  apply andb_true_iff in H. destruct H as [H1 H2]. split.
  - intro Hn. subst n. apply quads_eqb_eq. exact H1.
  - intros e He q Hq. rewrite He in H2. rewrite forallb_forall in H2. specialize (H2 _ Hq).
    apply existsb_exists in H2. destruct H2 as [r [Hr E]]. apply quads_eqb_eq in E.
    injection E as E. rewrite E. exact Hr.
Qed.

Print Assumptions C11_conformal.
Print Assumptions C11_handedness.
Print Assumptions C11_winding.
Print Assumptions C11_choppable.
Print Assumptions C11_chain_interface.
Print Assumptions C11_axis_pairs.
Print Assumptions C11_checker_sound.
Print Assumptions C11_onecore_shipped_table_insufficient.
Print Assumptions C11_disk_jacobian.
Print Assumptions C11_disk_on_circle.
Print Assumptions C11_ring_jacobian.
Print Assumptions C11_jacobian_partial.
Print Assumptions C11_disk_ratios.
Print Assumptions C11_disk_family_quads_tied.
