(** C04 - Cell-size distribution matches on shared edges and honours 'preserve'.

    Model: Model/C04_Payload.v (propagation with the chop payload and section provenance, all iteration
    orders and the per-wire Chop.calculate as oracles), Model/C04_Realise.v (what a section realises).
    The statements quantify over ALL assemblies (vertex lists), chop placements, iteration orders, calculate
    oracles, edge lengths and orientation labellings; nothing is bounded.

    Orientation: [dir] labels every block axis with a direction such that coincident wires are aligned iff
    their axes carry equal labels ([oriented]); on a geometric mesh this is the sign of the axis direction.
    The correspondence evaluates [oriented_b] inside Coq on every generated assembly. *)
From Coq Require Import Reals List Bool Arith ZArith QArith Qreals Lia Lra Psatz.
From CB Require Import Model.Propagate Proofs.PropagateBasics Proofs.PropagateInv
  Model.C03_Relations Proofs.C03_GeomSeries
  Model.C04_Payload Model.C04_Realise Proofs.C04_Transport Proofs.C04_Realise Proofs.C04_Lipschitz.
Import ListNotations.
Local Open Scope nat_scope.

(** ** 1. payload transport (DESIGN App. A, I5): whatever path a chop took through the assembly, the axis
    that holds it sees the user's count, length ratio and preserved value, in the field AND under the
    preserve tag of the geometrically same end (swapped iff the axis runs against the user's axis), and the
    value was never re-derived from another quantity ([c_ok]) *)
Definition C04_preserve_invariant_stmt : Prop :=
  forall bs eor o_coin o_nbrs dir s,
    oracle_ok4 bs o_coin o_nbrs = true -> oriented bs dir ->
    final bs eor o_coin o_nbrs = Some s ->
    forall x c, In c (ach s x) ->
      exists y u, In u (user_chops4 bs y) /\
        let same := Bool.eqb (dir x) (dir y) in
        c_cnt c = u_cnt u /\ c_lr c = u_lr u /\ c_val c = u_val u /\ c_ok c = true /\
        c_fld c = frame_fld same (u_tag u) /\ c_tag c = c_fld c /\
        c_inv c = match u_tag u with PC2c => negb same | _ => false end.

Theorem C04_preserve_invariant : C04_preserve_invariant_stmt.
Proof.
  intros bs eor oc on dir s Hok Hor Hfin x c Hc.
  destruct (oracle_ok4_spec _ _ _ Hok) as [Hco Hnb].
  assert (len_shared bs unit (fun _ => tt)) as Hlen by (intros w c0 _ _ _; reflexivity).
  destruct (final_inv bs eor oc on dir unit (fun _ => tt) Hor Hlen Hco Hnb s Hfin) as [HA _].
  destruct (HA _ _ Hc) as (y & u & Hu & ->). exists y, u. split; [exact Hu|]. cbv zeta.
  rewrite seen_cnt, seen_lr, seen_val, seen_ok, seen_tag, seen_fld, seen_inv. unfold frame_fld. repeat split; reflexivity.
Qed.

(** ** 2. preserve is realised: every section of every wire (the chopped block's four parallel edges and
    every block the chop propagated to) has the user's count and, on that wire's own length, realises the
    user's preserved first-cell size / last-cell size / cell-to-cell ratio at the geometrically same end -
    provided each Chop.calculate on a wire returned an expansion realising the chop it was given
    ([sections_sound]: C03's law, checked per recorded call by [interval] in the correspondence) *)
Definition C04_preserve_realised_stmt : Prop :=
  forall bs eor o_coin o_nbrs dir (len : wire -> R) s,
    oracle_ok4 bs o_coin o_nbrs = true -> oriented bs dir -> len_shared bs R len ->
    final bs eor o_coin o_nbrs = Some s -> sections_sound bs len s ->
    forall w sec, In sec (g s w) ->
      exists y u, In u (user_chops4 bs y) /\
        s_cnt sec = u_cnt u /\ s_lr sec = u_lr u /\
        ((2 <= Z.to_nat (u_cnt u))%nat ->
         let same := Bool.eqb (dir (w_axis w)) (dir y) in
         realises (frame_fld same (u_tag u)) (frame_val same (u_tag u) (Q2R (u_val u)))
                  (len w * Q2R (u_lr u))%R (Z.to_nat (u_cnt u)) (secER sec)).

Theorem C04_preserve_realised : C04_preserve_realised_stmt.
Proof. exact preserve_realised. Qed.

(** [realises] speaks of blockMesh's own progression (Model/C03_Relations.v) *)
Definition C04_realised_is_blockmesh_stmt : Prop :=
  forall L n E, (0 < E)%R -> (2 <= n)%nat ->
    realised PStart L n E = bm_first L n E /\ realised PEnd L n E = bm_last L n E /\
    realised PC2c L n E = bm_ratio n E.

Theorem C04_realised_is_blockmesh : C04_realised_is_blockmesh_stmt.
Proof.
  intros L n E HE Hn. split; [apply realised_start; exact Hn|]. split; [apply realised_end; assumption|].
  apply realised_c2c; exact Hn.
Qed.

(** ** 3. shared edges.

    What the code guarantees on success is that the NUMBERS of the gradings of coincident wires agree to its
    relative tolerance [tau] ([spec_close]: math.isclose on every length ratio and total expansion, equal
    counts) - two independently chopped blocks are compared as floats.  3a turns that into a bound on the
    CELL SIZES blockMesh makes of the two gradings, for ALL section counts, expansions and lengths:
    every cell differs by at most [kappa tau * |L| * M] where M bounds the length ratios (the code
    enforces 0 < length_ratio <= 1, i.e. M = 1) and

        kappa tau = tau * (2 - tau) / (1 - tau)   (<= 3 tau for tau <= 1/2; kappa 0 = 0),

    independent of the number of cells and of the expansions.  Behind it (3a'): within one section a cell
    changes by at most the FACTOR by which the total expansion changes.  3b is the statement about the written
    mesh; 3c keeps the exact-equality statement visible, refuted. *)

(** 3a' one section of [n] cells on one length: cell by cell, the ratio of the two sizes lies between E1/E2
    and E2/E1 *)
Definition C04_cell_factor_stmt : Prop :=
  forall (S : R) (n k : nat) (E1 E2 : R), (0 <= S)%R -> (0 < E1)%R -> (E1 <= E2)%R -> (k < n)%nat ->
    (bm_cell S n E2 k * E1 <= bm_cell S n E1 k * E2 /\ bm_cell S n E1 k * E1 <= bm_cell S n E2 k * E2)%R.

Theorem C04_cell_factor : C04_cell_factor_stmt.
Proof.
  intros S n k E1 E2 HS H1 H12 Hk. rewrite !bm_cell_share by lia.
  destruct (share_factor n E1 E2 k H1 H12 Hk) as [A B]. split; nra.
Qed.

(** 3a two gradings (any number of sections) whose numbers are [tau]-close: all cell sizes are close *)
Definition C04_sequences_close_stmt : Prop :=
  forall (tau : Q) (L M : R) (g1 g2 : list div3),
    (0 <= Q2R tau < 1)%R ->
    Forall (fun d => 0 < Q2R (snd d))%R g1 -> lr_bounded M g1 -> lr_bounded M g2 ->
    spec_close tau g1 g2 = true ->
    let c1 := grading_cells L (map divR g1) in
    let c2 := grading_cells L (map divR g2) in
    length c1 = length c2 /\
    forall k, (k < length c1)%nat -> (Rabs (nth k c1 0 - nth k c2 0) <= kappa (Q2R tau) * Rabs L * M)%R.

Theorem C04_sequences_close : C04_sequences_close_stmt.
Proof.
  intros tau L M g1 g2 Ht HP B1 B2 H c1 c2. apply cells_within_nth.
  apply sequences_close; assumption.
Qed.

(** the bound tends to 0 with the tolerance *)
Definition C04_bound_vanishes_stmt : Prop :=
  kappa 0 = 0%R /\ forall tau, (0 <= tau <= 1 / 2)%R -> (0 <= kappa tau <= 3 * tau)%R.

Theorem C04_bound_vanishes : C04_bound_vanishes_stmt.
Proof.
  split; [exact kappa_0|]. intros tau H. split; [apply kappa_nonneg; lra | apply kappa_le_3tau; exact H].
Qed.

(** 3b when writing succeeds, any two coincident wires [w], [c] carry equal counts, gradings whose numbers
    agree to [tau] (with the other wire's grading as it is when aligned, [Grading.inverted] when
    anti-aligned), and - each wire expanded on its OWN length, coincident wires having one length
    ([len_shared], checked on every generated case) - cell sequences that agree cell by cell within
    [kappa tau * |len w| * M], the other sequence REVERSED when the wires are anti-aligned; the two
    sequences are EXACTLY equal (resp. reversed) when the wire holds the other wire's section records,
    which is what copy_neighbours leaves behind ([C04_copied_shares_records]) *)
Definition C04_same_sequence_stmt : Prop :=
  forall bs tau eor o_coin o_nbrs cs sp k ch,
    run bs tau eor o_coin o_nbrs = Ok cs sp k ch ->
    exists s, final bs eor o_coin o_nbrs = Some s /\
      forall x w c, In x (all_axes (nblocks4 bs)) -> In w (wires_of_axis x) -> In c (coin_set (gb bs) w) ->
        wcount s c = wcount s w /\
        spec_close tau (num (g s w)) (if aligned (gb bs) c w then num (g s c) else num (inv_secs (g s c))) = true /\
        forall (len : wire -> R) (M : R),
          (0 <= Q2R tau < 1)%R -> len_shared bs R len -> expansions_positive bs s -> ratios_bounded bs M s ->
          let mine := grading_cells (len w) (numR (g s w)) in
          let other := grading_cells (len c) (numR (g s c)) in
          let other' := if aligned (gb bs) c w then other else rev other in
          cells_within (kappa (Q2R tau) * Rabs (len w) * M) mine other' /\
          (g s w = (if aligned (gb bs) c w then g s c else inv_secs (g s c)) -> mine = other').

Theorem C04_same_sequence : C04_same_sequence_stmt.
Proof. exact same_sequence. Qed.

(** [cells_within eps] is cell-wise: equal lengths and every pair of cells within [eps] *)
Definition C04_cells_within_meaning_stmt : Prop :=
  forall eps l m, cells_within eps l m ->
    length l = length m /\ forall k, (k < length l)%nat -> (Rabs (nth k l 0 - nth k m 0) <= eps)%R.
Theorem C04_cells_within_meaning : C04_cells_within_meaning_stmt.
Proof. exact cells_within_nth. Qed.

(** an inverted grading is exactly the reversed sequence of cell sizes, multi-section included *)
Definition C04_inverted_is_reversed_stmt : Prop :=
  forall L l, Forall (fun s => (0 < Q2R (s_E s))%R) l ->
    grading_cells L (numR (inv_secs l)) = rev (grading_cells L (numR l)).
Theorem C04_inverted_is_reversed : C04_inverted_is_reversed_stmt.
Proof. exact cells_inv_secs. Qed.

(** copy_neighbours on a wire with a defined coincident wire: afterwards the wire holds the section records of
    one of its coincident wires (that wire's own records untouched), reversed/flipped when anti-aligned *)
Definition C04_copied_shares_records_stmt : Prop :=
  forall bs o_coin s w,
    coin_ok bs o_coin -> In w (all_wires (nblocks4 bs)) -> (exists c, In c (o_coin w) /\ w_defined s c = true) ->
    exists c, In c (coin_set (gb bs) w) /\ w_defined s c = true /\
      g (copy_wire bs o_coin s w) w = (if aligned (gb bs) c w then g s c else inv_secs (g s c)) /\
      g (copy_wire bs o_coin s w) c = g s c.
Theorem C04_copied_shares_records : C04_copied_shares_records_stmt.
Proof. intros bs o_coin s w. apply copy_wire_shares. Qed.

(** 3c exact equality of the two cell sequences (the statement without tolerance) does NOT hold in general:
    two neighbouring blocks, both chopped into 2 cells along every direction, total expansion 2 on one and
    2 + 1e-8 on the other, tau = 1e-7 (constants.TOL): the check passes and the mesh is written, the first
    cells on the shared edge are 1/3 and 1/(3 + 1e-8) of it.  Tolerance is inherent in comparing floats. *)
Definition C04_same_sequence_exact_stmt : Prop :=
  forall bs tau eor o_coin o_nbrs cs sp k ch (len : wire -> R),
    run bs tau eor o_coin o_nbrs = Ok cs sp k ch ->
    exists s, final bs eor o_coin o_nbrs = Some s /\
      forall x w c, In x (all_axes (nblocks4 bs)) -> In w (wires_of_axis x) -> In c (coin_set (gb bs) w) ->
        grading_cells (len w) (numR (g s w)) =
        if aligned (gb bs) c w then grading_cells (len w) (numR (g s c)) else rev (grading_cells (len w) (numR (g s c))).

Definition tw_u : uchop := {| u_lr := 1; u_cnt := 2; u_tag := PC2c; u_val := 1 |}.
Definition tw_bs : list blk4 :=
  [ {| b_verts := [0; 1; 2; 3; 4; 5; 6; 7]; b_chops := [[tw_u]; [tw_u]; [tw_u]] |};
    {| b_verts := [4; 5; 6; 7; 8; 9; 10; 11]; b_chops := [[tw_u]; [tw_u]; [tw_u]] |} ].
Definition tw_eor (w : wire) (i : nat) : Q := if (fst (fst w) =? 0) then 2%Q else (2 + (1 # 100000000))%Q.
Definition tw_tau : Q := 1 # 10000000.
Definition tw_oc := o_coin_ins (gb tw_bs).
Definition tw_on := o_nbrs_ins (gb tw_bs).
Definition sec_view (s : sec) : Q * Z * Q * bool := (s_lr s, s_cnt s, s_E s, s_inv s).

Example C04_tolerance_witness_runs :
  match run tw_bs tw_tau tw_eor tw_oc tw_on with Ok _ _ _ _ => true | _ => false end = true /\
  match final tw_bs tw_eor tw_oc tw_on with
  | Some s => (map sec_view (g s (1, 0, 0)), map sec_view (g s (0, 0, 3)))
  | None => ([], []) end = ([(1%Q, 2%Z, (2 + (1 # 100000000))%Q, false)], [(1%Q, 2%Z, 2%Q, false)]) /\
  aligned (gb tw_bs) (0, 0, 3) (1, 0, 0) = true /\
  existsb (wire_eqb (0, 0, 3)) (coin_set (gb tw_bs) (1, 0, 0)) = true.
Proof. vm_compute. repeat split; reflexivity. Qed.

Lemma numR_of_view l a n e : map sec_view l = [(a, n, e, false)] -> numR l = [(Q2R a, n, Q2R e)].
Proof.
  destruct l as [|s [|s' l]]; try discriminate. unfold sec_view, numR, secER. simpl. intro H. inversion H; subst.
  rewrite H4. reflexivity.
Qed.

Theorem C04_same_sequence_exact_refuted : ~ C04_same_sequence_exact_stmt.
Proof.
  intro H. destruct C04_tolerance_witness_runs as (R0 & V & A & I).
  destruct (run tw_bs tw_tau tw_eor tw_oc tw_on) as [cs sp k ch| | | | |] eqn:R1; try discriminate.
  destruct (H tw_bs tw_tau tw_eor tw_oc tw_on cs sp k ch (fun _ => 1%R) R1) as (s & F & K).
  rewrite F in V. inversion V as [[V1 V2]].
  assert (In (0, 0, 3) (coin_set (gb tw_bs) (1, 0, 0))) as Hc.
  { apply existsb_exists in I. destruct I as [c [Hc E]]. apply wire_eqb_eq in E. subst c. exact Hc. }
  specialize (K (1, 0) (1, 0, 0) (0, 0, 3)). rewrite A in K.
  rewrite (numR_of_view _ _ _ _ V1), (numR_of_view _ _ _ _ V2) in K.
  assert (In (1, 0) (all_axes (nblocks4 tw_bs))) as Hx by (vm_compute; auto 10).
  assert (In (1, 0, 0) (wires_of_axis (1, 0))) as Hw by (vm_compute; auto).
  specialize (K Hx Hw Hc). unfold grading_cells in K. cbn [flat_map fst snd] in K. rewrite !app_nil_r in K.
  change (Z.to_nat 2) with 2%nat in K.
  revert K. apply bm_cells_two_differ.
  - unfold Q2R; simpl; lra.
  - rewrite Q2R_plus; unfold Q2R; simpl; lra.
  - unfold Q2R; simpl; lra.
  - rewrite Q2R_plus; unfold Q2R; simpl; lra.
Qed.

(** on the same witness the hypotheses of [C04_same_sequence] hold (M = 1, unit lengths), so its conclusion is
    not vacuous: the two sequences above differ, and are within kappa(1e-7) of each other *)
Example C04_same_sequence_hypotheses_satisfiable :
  exists bs tau eor o_coin o_nbrs cs sp k ch s (len : wire -> R),
    run bs tau eor o_coin o_nbrs = Ok cs sp k ch /\ final bs eor o_coin o_nbrs = Some s /\
    (0 <= Q2R tau < 1)%R /\ len_shared bs R len /\ expansions_positive bs s /\ ratios_bounded bs 1 s /\
    g s (1, 0, 0) <> [].
Proof.
  destruct C04_tolerance_witness_runs as (R0 & V & _ & _).
  destruct (run tw_bs tw_tau tw_eor tw_oc tw_on) as [cs sp k ch| | | | |] eqn:R1; try discriminate.
  destruct (run_ok_final _ _ _ _ _ _ _ _ _ R1) as (s & F & Hok & _).
  exists tw_bs, tw_tau, tw_eor, tw_oc, tw_on, cs, sp, k, ch, s, (fun _ => 1%R).
  split; [exact R1|]. split; [exact F|]. split; [unfold tw_tau, Q2R; simpl; lra|].
  split; [intros w c _ _ _; reflexivity|].
  assert (oriented_b tw_bs (fun _ => true) = true) as Ob by (vm_compute; reflexivity).
  pose proof (oriented_b_spec _ _ Ob) as Hor.
  assert (len_shared tw_bs unit (fun _ => tt)) as Hlen by (intros w c _ _ _; reflexivity).
  destruct (oracle_ok4_spec _ _ _ Hok) as [Hco Hnb].
  destruct (final_inv tw_bs tw_eor tw_oc tw_on (fun _ => true) unit (fun _ => tt) Hor Hlen Hco Hnb s F) as [HA HW].
  split; [|split].
  - intros w sec Hs. destruct (HW _ _ Hs) as (_ & _ & _ & _ & _ & [j E]). rewrite E. unfold tw_eor.
    destruct (fst (fst (s_src sec)) =? 0); [|rewrite Q2R_plus]; unfold Q2R; simpl; lra.
  - intros w sec Hs. destruct (HW _ _ Hs) as (K1 & _ & _ & K4 & _). destruct (HA _ _ K1) as (y & u & Hu & Ec).
    assert (u = tw_u) as ->.
    { unfold user_chops4 in Hu. destruct y as [b a]. simpl in Hu.
      destruct b as [|[|b]]; simpl in Hu; try (destruct b; simpl in Hu);
        destruct a as [|[|[|a]]]; simpl in Hu; try (destruct a; simpl in Hu);
        repeat match goal with H : _ \/ _ |- _ => destruct H | H : False |- _ => destruct H end; congruence. }
    rewrite K4, Ec, seen_lr. unfold tw_u, Q2R. simpl. rewrite Rabs_pos_eq; lra.
  - rewrite F in V. inversion V as [[V1 _]]. intro E. rewrite E in V1. discriminate.
Qed.

(** ** 4. simpleGrading only if the four gradings of every direction are equal (rel. [tau]); what is
    printed then is wire 0's grading, otherwise all twelve *)
Definition C04_simple_only_if_equal_stmt : Prop :=
  forall bs tau eor o_coin o_nbrs cs sp k ch,
    run bs tau eor o_coin o_nbrs = Ok cs sp k ch ->
    exists s, final bs eor o_coin o_nbrs = Some s /\
      k = map (block_simple tau s) (seq 0 (nblocks4 bs)) /\
      forall b, block_simple tau s b = true ->
        (forall a j, a < 3 -> 1 <= j <= 3 -> spec_close tau (num (g s (b, a, j))) (num (g s (b, a, 0))) = true) /\
        printed tau s b = map (fun x => num (g s (fst x, snd x, 0))) (axes_of_block b).

Theorem C04_simple_only_if_equal : C04_simple_only_if_equal_stmt.
Proof.
  intros bs tau eor oc on cs sp k ch R.
  destruct (run_ok_final bs tau eor oc on cs sp k ch R) as (s & F & _ & _ & _ & _ & K & _).
  exists s. split; [exact F|]. split; [exact K|]. intros b B. split.
  - intros a j Ha Hj. unfold block_simple in B. rewrite forallb_forall in B.
    assert (In (b, a) (axes_of_block b)) as Hx by (apply in_axes_of_block; simpl; auto).
    specialize (B _ Hx). unfold axis_simple in B. rewrite forallb_forall in B. simpl in B. apply B.
    destruct j as [|[|[|[|j]]]]; simpl; auto; lia.
  - unfold printed. rewrite B. reflexivity.
Qed.

(** ** the defect repaired by fixes/C04-1.diff, stated on the payload algebra: with the old [Chop.invert]
    (tag not swapped) a size-preserving chop that crossed one flipped block no longer holds its value in
    the preserved field, so the next copy_preserving re-derives it from the other end *)
Definition C04_old_invert_loses_value_stmt : Prop :=
  forall u, u_tag u <> PC2c ->
    c_ok (copy_pres (invert_old (copy_pres (pc u)))) = false /\
    c_ok (copy_pres (invert (copy_pres (pc u)))) = true.

Theorem C04_old_invert_loses_value : C04_old_invert_loses_value_stmt.
Proof. intros [lr n t v] H. destruct t; simpl in *; try congruence; split; reflexivity. Qed.

(** ** the hypotheses are satisfiable (and the conclusions not vacuous): three blocks stacked along z, the
    middle one turned upside down, a start-size preserving chop on the first *)
Definition ex_u : uchop := {| u_lr := 1; u_cnt := 2; u_tag := PStart; u_val := 1 # 2 |}.
Definition ex_bs : list blk4 :=
  [ {| b_verts := [0; 1; 2; 3; 4; 5; 6; 7]; b_chops := [[ex_u]; [ex_u]; [ex_u]] |};
    {| b_verts := [8; 9; 6; 7; 10; 11; 2; 3]; b_chops := [[]; [ex_u]; []] |};
    {| b_verts := [10; 11; 12; 13; 8; 9; 14; 15]; b_chops := [[]; [ex_u]; []] |} ].
Definition ex_dir (x : axis) : bool := negb ((fst x =? 1) && negb (snd x =? 0)).
Definition ex_eor (w : wire) (i : nat) : Q := 1.
Definition ex_oc := o_coin_ins (gb ex_bs).
Definition ex_on := o_nbrs_ins (gb ex_bs).

Example C04_example_runs :
  oracle_ok4 ex_bs ex_oc ex_on = true /\ oriented_b ex_bs ex_dir = true /\
  match run ex_bs (1 # 10000000) ex_eor ex_oc ex_on with Ok _ _ _ _ => true | _ => false end = true /\
  match final ex_bs ex_eor ex_oc ex_on with
  | Some s => map (fun c => (c_fld c, c_tag c)) (ach s (1, 2)) ++ map (fun c => (c_fld c, c_tag c)) (ach s (2, 2))
  | None => [] end = [(PEnd, PEnd); (PStart, PStart)].
Proof. vm_compute. repeat split; reflexivity. Qed.

Example C04_hypotheses_satisfiable :
  exists bs eor o_coin o_nbrs dir (len : wire -> R) s,
    oracle_ok4 bs o_coin o_nbrs = true /\ oriented bs dir /\ len_shared bs R len /\
    final bs eor o_coin o_nbrs = Some s /\ sections_sound bs len s /\ g s (2, 2, 3) <> [].
Proof.
  destruct C04_example_runs as (H1 & H2 & _ & _).
  destruct (final ex_bs ex_eor ex_oc ex_on) as [s|] eqn:F.
  2: { exfalso. assert (match final ex_bs ex_eor ex_oc ex_on with Some _ => true | None => false end = true) as K
         by (vm_compute; reflexivity). rewrite F in K. discriminate. }
  exists ex_bs, ex_eor, ex_oc, ex_on, ex_dir, (fun _ => 1%R), s.
  pose proof (oriented_b_spec _ _ H2) as Hor.
  assert (len_shared ex_bs R (fun _ => 1%R)) as Hlen by (intros w c _ _ _; reflexivity).
  split; [exact H1|]. split; [exact Hor|]. split; [exact Hlen|]. split; [exact F|]. split.
  - destruct (oracle_ok4_spec _ _ _ H1) as [Hco Hnb].
    destruct (final_inv ex_bs ex_eor ex_oc ex_on ex_dir R (fun _ => 1%R) Hor Hlen Hco Hnb s F) as [HA HW].
    intros w sec Hs. destruct (HW _ _ Hs) as (K1 & _ & _ & K4 & K5 & [j K6]).
    destruct (HA _ _ K1) as (y & u & Hu & Ec).
    assert (u = ex_u) as ->.
    { unfold user_chops4 in Hu. destruct y as [b a]. simpl in Hu.
      destruct b as [|[|[|b]]]; simpl in Hu; try (destruct b; simpl in Hu);
        destruct a as [|[|[|a]]]; simpl in Hu; try (destruct a; simpl in Hu);
        repeat match goal with H : _ \/ _ |- _ => destruct H | H : False |- _ => destruct H end; congruence. }
    rewrite K4, K5, K6, Ec. unfold ex_eor.
    assert (Q2R 1 = 1%R) as Q1 by (unfold Q2R; simpl; lra).
    assert (Q2R (1 # 2) = (1 / 2)%R) as Q2 by (unfold Q2R; simpl; lra).
    destruct (Bool.eqb (ex_dir (w_axis (s_src sec))) (ex_dir y)); simpl; unfold realises, realised, ratio_of, cvalR; simpl;
      rewrite Q1, ?Q2; (split; [lra|]); rewrite ln_1; unfold Rdiv; rewrite Rmult_0_l, exp_0; lra.
  - assert (match final ex_bs ex_eor ex_oc ex_on with Some s => negb (is_nil (g s (2, 2, 3))) | None => false end = true) as K
      by (vm_compute; reflexivity).
    rewrite F in K. destruct (g s (2, 2, 3)); [discriminate | discriminate].
Qed.

Print Assumptions C04_preserve_invariant.
Print Assumptions C04_preserve_realised.
Print Assumptions C04_realised_is_blockmesh.
Print Assumptions C04_cell_factor.
Print Assumptions C04_sequences_close.
Print Assumptions C04_bound_vanishes.
Print Assumptions C04_same_sequence.
Print Assumptions C04_cells_within_meaning.
Print Assumptions C04_inverted_is_reversed.
Print Assumptions C04_copied_shares_records.
Print Assumptions C04_same_sequence_exact_refuted.
Print Assumptions C04_simple_only_if_equal.
Print Assumptions C04_old_invert_loses_value.
