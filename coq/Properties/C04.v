(** C04 - Cell-size distribution matches on shared edges and honours 'preserve'.

    Model: Model/C04_Payload.v (propagation with the chop payload and section provenance, all iteration
    orders and the per-wire Chop.calculate as oracles), Model/C04_Realise.v (what a section realises).
    The statements quantify over ALL assemblies (vertex lists), chop placements, iteration orders, calculate
    oracles, edge lengths and orientation labellings; nothing is bounded.

    Orientation: [dir] labels every block axis with a direction such that coincident wires are aligned iff
    their axes carry equal labels ([oriented]); on a geometric mesh this is the sign of the axis direction.
    The correspondence evaluates [oriented_b] inside Coq on every generated assembly. *)
From Coq Require Import Reals List Bool Arith ZArith QArith Qreals Lia Lra.
From CB Require Import Model.Propagate Proofs.PropagateBasics Proofs.PropagateInv
  Model.C03_Relations Proofs.C03_GeomSeries
  Model.C04_Payload Model.C04_Realise Proofs.C04_Transport Proofs.C04_Realise.
Import ListNotations.
Local Open Scope nat_scope.

(** ** 1. payload transport (DESIGN App. A, I5): whatever path a chop took through the assembly, the axis
    that holds it sees the user's count, length ratio and preserved value, in the field AND under the
    preserve tag of the geometrically same end (swapped iff the axis runs against the user's axis), and the
    value was never re-derived from another quantity ([c_ok]) *)
Definition C04_preserve_invariant_stmt : Prop :=
  forall bs eor o_coin o_nbrs dir s,
    oracle_ok4 bs o_coin o_nbrs = true -> oriented bs dir ->
    final bs eor o_coin o_nbrs = Some s ->
    forall x c, In c (ach s x) ->
      exists y u, In u (user_chops4 bs y) /\
        let same := Bool.eqb (dir x) (dir y) in
        c_cnt c = u_cnt u /\ c_lr c = u_lr u /\ c_val c = u_val u /\ c_ok c = true /\
        c_fld c = frame_fld same (u_tag u) /\ c_tag c = c_fld c /\
        c_inv c = match u_tag u with PC2c => negb same | _ => false end.

Theorem C04_preserve_invariant : C04_preserve_invariant_stmt.
Proof.
  intros bs eor oc on dir s Hok Hor Hfin x c Hc.
  destruct (oracle_ok4_spec _ _ _ Hok) as [Hco Hnb].
  assert (len_shared bs unit (fun _ => tt)) as Hlen by (intros w c0 _ _ _; reflexivity).
  destruct (final_inv bs eor oc on dir unit (fun _ => tt) Hor Hlen Hco Hnb s Hfin) as [HA _].
  destruct (HA _ _ Hc) as (y & u & Hu & ->). exists y, u. split; [exact Hu|]. cbv zeta.
  rewrite seen_cnt, seen_lr, seen_val, seen_ok, seen_tag, seen_fld, seen_inv. unfold frame_fld. repeat split; reflexivity.
Qed.

(** ** 2. preserve is realised: every section of every wire (the chopped block's four parallel edges and
    every block the chop propagated to) has the user's count and, on that wire's own length, realises the
    user's preserved first-cell size / last-cell size / cell-to-cell ratio at the geometrically same end -
    provided each Chop.calculate on a wire returned an expansion realising the chop it was given
    ([sections_sound]: C03's law, checked per recorded call by [interval] in the correspondence) *)
Definition C04_preserve_realised_stmt : Prop :=
  forall bs eor o_coin o_nbrs dir (len : wire -> R) s,
    oracle_ok4 bs o_coin o_nbrs = true -> oriented bs dir -> len_shared bs R len ->
    final bs eor o_coin o_nbrs = Some s -> sections_sound bs len s ->
    forall w sec, In sec (g s w) ->
      exists y u, In u (user_chops4 bs y) /\
        s_cnt sec = u_cnt u /\ s_lr sec = u_lr u /\
        ((2 <= Z.to_nat (u_cnt u))%nat ->
         let same := Bool.eqb (dir (w_axis w)) (dir y) in
         realises (frame_fld same (u_tag u)) (frame_val same (u_tag u) (Q2R (u_val u)))
                  (len w * Q2R (u_lr u))%R (Z.to_nat (u_cnt u)) (secER sec)).

Theorem C04_preserve_realised : C04_preserve_realised_stmt.
Proof. exact preserve_realised. Qed.

(** [realises] speaks of blockMesh's own progression (Model/C03_Relations.v) *)
Definition C04_realised_is_blockmesh_stmt : Prop :=
  forall L n E, (0 < E)%R -> (2 <= n)%nat ->
    realised PStart L n E = bm_first L n E /\ realised PEnd L n E = bm_last L n E /\
    realised PC2c L n E = bm_ratio n E.

Theorem C04_realised_is_blockmesh : C04_realised_is_blockmesh_stmt.
Proof.
  intros L n E HE Hn. split; [apply realised_start; exact Hn|]. split; [apply realised_end; assumption|].
  apply realised_c2c; exact Hn.
Qed.

(** ** 3. shared edges: when writing succeeds, any two coincident wires carry the same count and
    gradings that agree number by number (the code's own relative tolerance [tau]) with the other wire's
    grading - as it is when aligned, [Grading.inverted] when anti-aligned; and an inverted grading
    describes exactly the reversed sequence of cell sizes, multi-section included *)
Definition C04_same_sequence_stmt : Prop :=
  forall bs tau eor o_coin o_nbrs cs sp k ch (len : wire -> R),
    run bs tau eor o_coin o_nbrs = Ok cs sp k ch ->
    exists s, final bs eor o_coin o_nbrs = Some s /\
      forall x w c, In x (all_axes (nblocks4 bs)) -> In w (wires_of_axis x) -> In c (coin_set (gb bs) w) ->
        grading_cells (len w) (numR (g s w)) =
        if aligned (gb bs) c w then grading_cells (len w) (numR (g s c)) else rev (grading_cells (len w) (numR (g s c))).
(** Full strength (exact equality of the two cell-size sequences) is NOT what the code can deliver for two
    independently chopped blocks: their gradings are compared with the relative tolerance [tau] (floats).
    Proved below: the numbers of the two gradings agree to [tau] - exactly for copied wires, which share
    the section records - and an inverted grading is exactly the reversed sequence.  Missing for the full
    statement: a Lipschitz bound turning [tau]-closeness of expansions into closeness of cell sizes
    (measured by the direct oracle on every case at 1e-6 instead). *)
Definition C04_same_sequence_partial_stmt : Prop :=
  (forall bs tau eor o_coin o_nbrs cs sp k ch,
     run bs tau eor o_coin o_nbrs = Ok cs sp k ch ->
     exists s, final bs eor o_coin o_nbrs = Some s /\
       forall x w c, In x (all_axes (nblocks4 bs)) -> In w (wires_of_axis x) -> In c (coin_set (gb bs) w) ->
         wcount s c = wcount s w /\
         spec_close tau (num (g s w)) (if aligned (gb bs) c w then num (g s c) else num (inv_secs (g s c))) = true)
  /\ (forall L l, Forall (fun s => (0 < Q2R (s_E s))%R) l ->
        grading_cells L (numR (inv_secs l)) = rev (grading_cells L (numR l))).

Theorem C04_same_sequence_partial : C04_same_sequence_partial_stmt.
Proof.
  split.
  - intros bs tau eor oc on cs sp k ch R.
    destruct (run_ok_final bs tau eor oc on cs sp k ch R) as (s & F & _ & C & _).
    exists s. split; [exact F|]. intros x w c Hx Hw Hc.
    destruct (consistent_spec bs tau s C x Hx) as [_ H]. exact (H w c Hw Hc).
  - exact cells_inv_secs.
Qed.

(** ** 4. simpleGrading only if the four gradings of every direction are equal (rel. [tau]); what is
    printed then is wire 0's grading, otherwise all twelve *)
Definition C04_simple_only_if_equal_stmt : Prop :=
  forall bs tau eor o_coin o_nbrs cs sp k ch,
    run bs tau eor o_coin o_nbrs = Ok cs sp k ch ->
    exists s, final bs eor o_coin o_nbrs = Some s /\
      k = map (block_simple tau s) (seq 0 (nblocks4 bs)) /\
      forall b, block_simple tau s b = true ->
        (forall a j, a < 3 -> 1 <= j <= 3 -> spec_close tau (num (g s (b, a, j))) (num (g s (b, a, 0))) = true) /\
        printed tau s b = map (fun x => num (g s (fst x, snd x, 0))) (axes_of_block b).

Theorem C04_simple_only_if_equal : C04_simple_only_if_equal_stmt.
Proof.
  intros bs tau eor oc on cs sp k ch R.
  destruct (run_ok_final bs tau eor oc on cs sp k ch R) as (s & F & _ & _ & _ & _ & K & _).
  exists s. split; [exact F|]. split; [exact K|]. intros b B. split.
  - intros a j Ha Hj. unfold block_simple in B. rewrite forallb_forall in B.
    assert (In (b, a) (axes_of_block b)) as Hx by (apply in_axes_of_block; simpl; auto).
    specialize (B _ Hx). unfold axis_simple in B. rewrite forallb_forall in B. simpl in B. apply B.
    destruct j as [|[|[|[|j]]]]; simpl; auto; lia.
  - unfold printed. rewrite B. reflexivity.
Qed.

(** ** the defect repaired by fixes/C04-1.diff, stated on the payload algebra: with the old [Chop.invert]
    (tag not swapped) a size-preserving chop that crossed one flipped block no longer holds its value in
    the preserved field, so the next copy_preserving re-derives it from the other end *)
Definition C04_old_invert_loses_value_stmt : Prop :=
  forall u, u_tag u <> PC2c ->
    c_ok (copy_pres (invert_old (copy_pres (pc u)))) = false /\
    c_ok (copy_pres (invert (copy_pres (pc u)))) = true.

Theorem C04_old_invert_loses_value : C04_old_invert_loses_value_stmt.
Proof. intros [lr n t v] H. destruct t; simpl in *; try congruence; split; reflexivity. Qed.

(** ** the hypotheses are satisfiable (and the conclusions not vacuous): three blocks stacked along z, the
    middle one turned upside down, a start-size preserving chop on the first *)
Definition ex_u : uchop := {| u_lr := 1; u_cnt := 2; u_tag := PStart; u_val := 1 # 2 |}.
Definition ex_bs : list blk4 :=
  [ {| b_verts := [0; 1; 2; 3; 4; 5; 6; 7]; b_chops := [[ex_u]; [ex_u]; [ex_u]] |};
    {| b_verts := [8; 9; 6; 7; 10; 11; 2; 3]; b_chops := [[]; [ex_u]; []] |};
    {| b_verts := [10; 11; 12; 13; 8; 9; 14; 15]; b_chops := [[]; [ex_u]; []] |} ].
Definition ex_dir (x : axis) : bool := negb ((fst x =? 1) && negb (snd x =? 0)).
Definition ex_eor (w : wire) (i : nat) : Q := 1.
Definition ex_oc := o_coin_ins (gb ex_bs).
Definition ex_on := o_nbrs_ins (gb ex_bs).

Example C04_example_runs :
  oracle_ok4 ex_bs ex_oc ex_on = true /\ oriented_b ex_bs ex_dir = true /\
  match run ex_bs (1 # 10000000) ex_eor ex_oc ex_on with Ok _ _ _ _ => true | _ => false end = true /\
  match final ex_bs ex_eor ex_oc ex_on with
  | Some s => map (fun c => (c_fld c, c_tag c)) (ach s (1, 2)) ++ map (fun c => (c_fld c, c_tag c)) (ach s (2, 2))
  | None => [] end = [(PEnd, PEnd); (PStart, PStart)].
Proof. vm_compute. repeat split; reflexivity. Qed.

Example C04_hypotheses_satisfiable :
  exists bs eor o_coin o_nbrs dir (len : wire -> R) s,
    oracle_ok4 bs o_coin o_nbrs = true /\ oriented bs dir /\ len_shared bs R len /\
    final bs eor o_coin o_nbrs = Some s /\ sections_sound bs len s /\ g s (2, 2, 3) <> [].
Proof.
  destruct C04_example_runs as (H1 & H2 & _ & _).
  destruct (final ex_bs ex_eor ex_oc ex_on) as [s|] eqn:F.
  2: { exfalso. assert (match final ex_bs ex_eor ex_oc ex_on with Some _ => true | None => false end = true) as K
         by (vm_compute; reflexivity). rewrite F in K. discriminate. }
  exists ex_bs, ex_eor, ex_oc, ex_on, ex_dir, (fun _ => 1%R), s.
  pose proof (oriented_b_spec _ _ H2) as Hor.
  assert (len_shared ex_bs R (fun _ => 1%R)) as Hlen by (intros w c _ _ _; reflexivity).
  split; [exact H1|]. split; [exact Hor|]. split; [exact Hlen|]. split; [exact F|]. split.
  - destruct (oracle_ok4_spec _ _ _ H1) as [Hco Hnb].
    destruct (final_inv ex_bs ex_eor ex_oc ex_on ex_dir R (fun _ => 1%R) Hor Hlen Hco Hnb s F) as [HA HW].
    intros w sec Hs. destruct (HW _ _ Hs) as (K1 & _ & _ & K4 & K5 & [j K6]).
    destruct (HA _ _ K1) as (y & u & Hu & Ec).
    assert (u = ex_u) as ->.
    { unfold user_chops4 in Hu. destruct y as [b a]. simpl in Hu.
      destruct b as [|[|[|b]]]; simpl in Hu; try (destruct b; simpl in Hu);
        destruct a as [|[|[|a]]]; simpl in Hu; try (destruct a; simpl in Hu);
        repeat match goal with H : _ \/ _ |- _ => destruct H | H : False |- _ => destruct H end; congruence. }
    rewrite K4, K5, K6, Ec. unfold ex_eor.
    assert (Q2R 1 = 1%R) as Q1 by (unfold Q2R; simpl; lra).
    assert (Q2R (1 # 2) = (1 / 2)%R) as Q2 by (unfold Q2R; simpl; lra).
    destruct (Bool.eqb (ex_dir (w_axis (s_src sec))) (ex_dir y)); simpl; unfold realises, realised, ratio_of, cvalR; simpl;
      rewrite Q1, ?Q2; (split; [lra|]); rewrite ln_1; unfold Rdiv; rewrite Rmult_0_l, exp_0; lra.
  - assert (match final ex_bs ex_eor ex_oc ex_on with Some s => negb (is_nil (g s (2, 2, 3))) | None => false end = true) as K
      by (vm_compute; reflexivity).
    rewrite F in K. destruct (g s (2, 2, 3)); [discriminate | discriminate].
Qed.

Print Assumptions C04_preserve_invariant.
Print Assumptions C04_preserve_realised.
Print Assumptions C04_realised_is_blockmesh.
Print Assumptions C04_same_sequence_partial.
Print Assumptions C04_simple_only_if_equal.
Print Assumptions C04_old_invert_loses_value.
