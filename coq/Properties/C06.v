(** C06 - The written blockMeshDict is a faithful, well-formed rendering of the model.

    [Gen/C06/Tables.v] holds FACE_MAP as the writer uses it (Side(orient, vertices).vertices), the
    sides whose patches Operation.get_patches_at_corner reports, and the FoamFile header, all
    evaluated from the working tree in this run.  The specification is the reference hexahedron of
    Base/Hex.v.  The model (Model/C06_Mesh.v, Model/C06_Render.v) is tied to the code by the program
    correspondence of the check (file parsed and compared inside Coq). *)
From Coq Require Import List Bool Arith ZArith QArith String.
From CB Require Import Base.Hex Model.C06_Render Model.C06_Mesh Proofs.C06_Roundtrip Proofs.C06_Mesh Proofs.C06_Sections.
From CB Require Import Gen.C06.Tables.
Import ListNotations.
Open Scope nat_scope.

(** the side-to-corner map of the working tree *)
Definition table_fm : side -> list nat := fm_of_table tab_side_quad.

(** ** statements *)

(** the parser reads back the rendering of every well-formed abstract file, in particular of
    every mesh whose names and opaque settings are well-formed (Appendix B of DESIGN.md) *)
Definition C06_roundtrip_stmt : Prop :=
  (forall f, wf_afile f = true -> parse (render f) = Some f)
  /\ (forall fm m, wf_afile (ast_of fm m) = true -> parse (render_mesh fm m) = Some (ast_of fm m)).

(** FACE_MAP: each of the six entries is a proper corner cycle of that side of the hexahedron *)
Definition C06_face_map_is_hex_side_cycle_stmt : Prop :=
  map fst tab_side_quad = sides
  /\ forall s q, In (s, q) tab_side_quad -> is_side_cycle s q = true.

(** the patches reported at a corner are those of the three sides that meet there *)
Definition side_set_eqb (l m : list side) : bool :=
  (List.length l =? List.length m) && forallb (fun x => existsb (side_eqb x) m) l && forallb (fun x => existsb (side_eqb x) l) m.
Definition C06_corner_patches_stmt : Prop :=
  map fst tab_corner_sides = corners
  /\ forall c ss, In (c, ss) tab_corner_sides -> side_set_eqb ss (sides_at c) = true.

(** the edgeGrading order of the model is blockMesh's: the 12 edges of the hexahedron, each once,
    four per axis in the order x, y, z, each directed from coordinate 0 to coordinate 1 *)
Definition C06_edge_order_stmt : Prop :=
  List.length of_edges = 12
  /\ (forall a e, a < 3 -> In e (firstn 4 (skipn (4 * a) of_edges)) ->
        edge_axis (fst e) (snd e) = Some a /\ edge_positive (fst e) (snd e) = true)
  /\ (forall i j, i < 12 -> j < 12 -> i <> j ->
        key_of_pair (nth i of_edges (0, 0)) <> key_of_pair (nth j of_edges (0, 0))).

(** every index written (hex entries, boundary quads, projected quads) refers to an existing vertex *)
Definition C06_indices_valid_stmt : Prop :=
  forall m, indices_ok (ast_of table_fm m) = true.

(** every boundary quad and every projected quad is a side of some block: the image, under that
    block's eight vertex indexes, of a proper corner cycle of a side of the reference hexahedron *)
Definition C06_quads_are_sides_stmt : Prop :=
  forall m,
    (forall p qd, In p (f_patches (ast_of table_fm m)) -> In qd (p_quads p) -> is_block_side (ast_of table_fm m) qd)
    /\ (forall qd l, In (qd, l) (f_faces (ast_of table_fm m)) -> is_block_side (ast_of table_fm m) qd).

(** sections are exactly what was declared.
    Vocabulary (Proofs/C06_Sections.v): [keep_first same l] = [l] without the elements that are [same] as
    an earlier one (order of first occurrence); [assigned fm obs] = the (patch name, quad) pairs declared
    by the operations [obs], each paired with its hex entry, operations in order, sides in the order
    bottom, top, front, right, back, left; [projected fm obs] = the (quad, label) pairs of the projected
    sides, sides in the order front, right, back, left, bottom, top; [geom_defs m] = all geometry
    definitions, the user's dictionaries first, then the automatic ones of the entities in depot order;
    [pairwise_distinct same l] = no two elements of [l] are [same]. *)
Definition C06_sections_exact_stmt : Prop :=
  forall m, let f := ast_of table_fm m in
  let decl := combine (live_ops m) (f_blocks f) in   (* live operation k with hex entry k *)
  let mods := rev (m_modify_pre m ++ m_modify_post m) in   (* modifications, last first *)
  (* hex entries: the non-deleted operations in order, with zone and counts, eight indexes each *)
  (map (fun b => (b_zone b, b_counts b)) (f_blocks f) = map (fun o => (zone_of (o_zone o), o_counts o)) (live_ops m)
   /\ forall b, In b (f_blocks f) -> List.length (b_vids b) = 8)
  (* merged pairs, default patch, settings, header verbatim *)
  /\ (f_merged f = m_merged m /\ f_default f = m_default m
      /\ f_settings f = settings_of (m_settings m) /\ f_header f = m_header m)
  (* every assigned side is in its patch ... *)
  /\ (forall k o b s n, nth_error (live_ops m) k = Some o -> nth_error (f_blocks f) k = Some b ->
        patch_of (o_calls o) s = Some n ->
        exists p qd, In p (f_patches f) /\ p_name p = n /\ In qd (p_quads p)
                     /\ same_set qd (side_quad table_fm (b_vids b) s) = true)
  (* ... and nothing else is *)
  /\ (forall p qd, In p (f_patches f) -> In qd (p_quads p) ->
        exists k o b s, nth_error (live_ops m) k = Some o /\ nth_error (f_blocks f) k = Some b
                        /\ patch_of (o_calls o) s = Some (p_name p) /\ qd = side_quad table_fm (b_vids b) s)
  (* the patches: each name once, in the order of first mention (modifications before assembly,
     assigned sides, modifications after assembly) *)
  /\ map p_name (f_patches f)
     = keep_first String.eqb (map mod_name (m_modify_pre m) ++ map fst (assigned table_fm decl)
                              ++ map mod_name (m_modify_post m))
  (* the quads of a patch: the sides assigned to it in declaration order, each set of vertices once *)
  /\ (forall p, In p (f_patches f) ->
        p_quads p = keep_first same_set (map snd (filter (fun d => String.eqb (fst d) (p_name p)) (assigned table_fm decl)))
        /\ pairwise_distinct same_set (p_quads p))
  (* type of a patch: the last modification, else patch (and then no settings) *)
  /\ (forall p, In p (f_patches f) ->
        match find (fun md => String.eqb (mod_name md) (p_name p)) mods with
        | Some md => p_kind p = mod_kind md
        | None => p_kind p = "patch"%string /\ p_settings p = []
        end)
  (* settings of a patch: those of the last modification that gave settings, else none *)
  /\ (forall p, In p (f_patches f) ->
        match find (fun md => String.eqb (mod_name md) (p_name p) && has_settings md) mods with
        | Some md => snd md = Some (p_settings p)
        | None => p_settings p = []
        end)
  (* every projected side is in the faces section, and nothing else is *)
  /\ (forall k o b s l, nth_error (live_ops m) k = Some o -> nth_error (f_blocks f) k = Some b ->
        pface_of (o_calls o) s = Some l ->
        exists qd l', In (qd, l') (f_faces f) /\ same_set qd (side_quad table_fm (b_vids b) s) = true)
  /\ (forall qd l, In (qd, l) (f_faces f) ->
        exists k o b s, nth_error (live_ops m) k = Some o /\ nth_error (f_blocks f) k = Some b
                        /\ pface_of (o_calls o) s = Some l /\ qd = side_quad table_fm (b_vids b) s)
  (* the faces section: the projected sides in declaration order, each set of vertices once (the first label) *)
  /\ (f_faces f = keep_first face_same (projected table_fm decl) /\ pairwise_distinct face_same (f_faces f))
  (* geometry: the user's dictionaries and the entities' automatic ones ... *)
  /\ (forall n ps, In (n, ps) (f_geometry f) ->
        (exists g, In g (m_geometry m) /\ In (n, ps) g)
        \/ (exists e g, In e (m_depot m) /\ e_geom e = Some g /\ In (n, ps) g))
  (* ... each name once in the order of first definition, later definitions replacing earlier *)
  /\ map fst (f_geometry f) = keep_first String.eqb (map fst (geom_defs m))
  /\ (forall n ps, In (n, ps) (f_geometry f)
                   <-> find (fun d => String.eqb (fst d) n) (rev (geom_defs m)) = Some (n, ps)).

(** the debug VTK lists the same points and hexahedra *)
Definition C06_vtk_same_stmt : Prop :=
  forall m, fst (vtk_of table_fm m) = map v_pos (f_vertices (ast_of table_fm m))
            /\ snd (vtk_of table_fm m) = map b_vids (f_blocks (ast_of table_fm m)).

(** the vertex lookup of the model (with its integer-cell shortcut) is the plain search for the first
    vertex closer than TOL with the same set of slave patches (VertexList.find_duplicated) *)
Definition C06_vertex_lookup_stmt : Prop :=
  forall vs p sl i, keys_ok vs -> find_vtx vs p (key_pt p) sl i = find_vtx_spec vs p sl i.

(** ** proofs *)
Lemma table_fm_ok : fm_ok table_fm.
Proof. intro s. destruct s; vm_compute; reflexivity. Qed.

Theorem C06_roundtrip : C06_roundtrip_stmt.
Proof. exact (conj roundtrip (fun fm m H => roundtrip (ast_of fm m) H)). Qed.

Theorem C06_face_map_is_hex_side_cycle : C06_face_map_is_hex_side_cycle_stmt.
Proof.
  split; [vm_compute; reflexivity|].
  assert (H : forallb (fun x : side * list nat => is_side_cycle (fst x) (snd x)) tab_side_quad = true) by (vm_compute; reflexivity).
  rewrite forallb_forall in H. intros s q Hin. exact (H _ Hin).
Qed.

Theorem C06_corner_patches : C06_corner_patches_stmt.
Proof.
  split; [vm_compute; reflexivity|].
  assert (H : forallb (fun x : nat * list side => side_set_eqb (snd x) (sides_at (fst x))) tab_corner_sides = true) by (vm_compute; reflexivity).
  rewrite forallb_forall in H. intros c ss Hin. exact (H _ Hin).
Qed.

Theorem C06_edge_order : C06_edge_order_stmt.
Proof. exact edge_order. Qed.

Theorem C06_indices_valid : C06_indices_valid_stmt.
Proof. exact (fun m => indices_valid table_fm m table_fm_ok). Qed.

Theorem C06_quads_are_sides : C06_quads_are_sides_stmt.
Proof. exact (fun m => quads_are_sides table_fm m table_fm_ok). Qed.

Theorem C06_sections_exact : C06_sections_exact_stmt.
Proof.
  intros m f decl mods.
  split; [exact (blocks_are_live_ops table_fm m)|].
  split; [exact (declarations_verbatim table_fm m)|].
  split; [exact (assigned_side_written table_fm m)|].
  split; [exact (written_quad_assigned table_fm m)|].
  split; [exact (patch_names_exact table_fm m)|].
  split; [intros p Hp; split; [exact (proj1 (patch_exact table_fm m p Hp))|exact (patch_quads_distinct table_fm m p Hp)]|].
  split; [intros p Hp; exact (proj1 (proj2 (patch_exact table_fm m p Hp)))|].
  split; [intros p Hp; exact (proj2 (proj2 (patch_exact table_fm m p Hp)))|].
  split; [exact (projected_side_written table_fm m)|].
  split; [exact (written_face_projected table_fm m)|].
  split; [exact (conj (faces_exact table_fm m) (faces_distinct table_fm m))|].
  split; [exact (geometry_declared table_fm m)|].
  split; [exact (geometry_names_exact table_fm m)|].
  exact (geometry_last_wins table_fm m).
Qed.

(** the statement at work: two cubes side by side, the shared side assigned to "mid" from both (written once),
    "mid" modified twice (last type wins, the settings of the modification that gave some are kept), a
    geometry defined twice (last definition wins), a deleted operation absent *)
Definition ex_cube (dx : Z) (calls : list ocall) (deleted : bool) : op :=
  let P (x y z : Z) : pt := (inject_Z (x + dx), inject_Z y, inject_Z z) in
  mkOp [P 0 0 0; P 1 0 0; P 1 1 0; P 0 1 0; P 0 0 1; P 1 0 1; P 1 1 1; P 0 1 1]%Z deleted calls "" [1; 1; 1] [].
Definition ex_mesh : mesh :=
  mkMesh [] [] [[("g"%string, [[W "a"]])]; [("g"%string, [[W "b"]])]]
         [("mid", "wall", Some [[W "x"]])]%string [] None
         [mkEnt [ex_cube 0 [SetPatch [Right] "mid"; ProjSide Right "g" false] false;
                 ex_cube 5 [SetPatch [Top] "gone"] true;
                 ex_cube 1 [SetPatch [Left] "mid"; SetPatch [Top] "lid"; ProjSide Left "h" false] false] None]
         [("mid", "cyclic", None)]%string.
Example sections_example :
  let f := ast_of table_fm ex_mesh in
  map (fun p => (p_name p, p_kind p, p_settings p, List.length (p_quads p))) (f_patches f)
  = [("mid", "cyclic", [[W "x"]], 1); ("lid", "patch", [], 1)]%string
  /\ map snd (f_faces f) = ["g"%string]
  /\ f_geometry f = [("g"%string, [[W "b"]])]
  /\ List.length (f_blocks f) = 2.
Proof. vm_compute. repeat split; reflexivity. Qed.

Theorem C06_vtk_same : C06_vtk_same_stmt.
Proof. exact (fun m => vtk_same table_fm m). Qed.

Theorem C06_vertex_lookup : C06_vertex_lookup_stmt.
Proof. exact (fun vs p sl i H => find_vtx_is_spec vs p sl H i). Qed.

Print Assumptions C06_roundtrip.
Print Assumptions C06_face_map_is_hex_side_cycle.
Print Assumptions C06_corner_patches.
Print Assumptions C06_edge_order.
Print Assumptions C06_indices_valid.
Print Assumptions C06_quads_are_sides.
Print Assumptions C06_sections_exact.
Print Assumptions C06_vtk_same.
Print Assumptions C06_vertex_lookup.
