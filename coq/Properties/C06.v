(** C06 - The written blockMeshDict is a faithful, well-formed rendering of the model.

    [Gen/C06/Tables.v] holds FACE_MAP as the writer uses it (Side(orient, vertices).vertices), the
    sides whose patches Operation.get_patches_at_corner reports, and the FoamFile header, all
    evaluated from the working tree in this run.  The specification is the reference hexahedron of
    Base/Hex.v.  The model (Model/C06_Mesh.v, Model/C06_Render.v) is tied to the code by the program
    correspondence of the check (file parsed and compared inside Coq). *)
From Coq Require Import List Bool Arith ZArith QArith String.
From CB Require Import Base.Hex Model.C06_Render Model.C06_Mesh Proofs.C06_Roundtrip Proofs.C06_Mesh.
From CB Require Import Gen.C06.Tables.
Import ListNotations.
Open Scope nat_scope.

(** the side-to-corner map of the working tree *)
Definition table_fm : side -> list nat := fm_of_table tab_side_quad.

(** ** statements *)

(** the parser reads back the rendering of every well-formed abstract file, in particular of
    every mesh whose names and opaque settings are well-formed (Appendix B of DESIGN.md) *)
Definition C06_roundtrip_stmt : Prop :=
  (forall f, wf_afile f = true -> parse (render f) = Some f)
  /\ (forall fm m, wf_afile (ast_of fm m) = true -> parse (render_mesh fm m) = Some (ast_of fm m)).

(** FACE_MAP: each of the six entries is a proper corner cycle of that side of the hexahedron *)
Definition C06_face_map_is_hex_side_cycle_stmt : Prop :=
  map fst tab_side_quad = sides
  /\ forall s q, In (s, q) tab_side_quad -> is_side_cycle s q = true.

(** the patches reported at a corner are those of the three sides that meet there *)
Definition side_set_eqb (l m : list side) : bool :=
  (List.length l =? List.length m) && forallb (fun x => existsb (side_eqb x) m) l && forallb (fun x => existsb (side_eqb x) l) m.
Definition C06_corner_patches_stmt : Prop :=
  map fst tab_corner_sides = corners
  /\ forall c ss, In (c, ss) tab_corner_sides -> side_set_eqb ss (sides_at c) = true.

(** the edgeGrading order of the model is blockMesh's: the 12 edges of the hexahedron, each once,
    four per axis in the order x, y, z, each directed from coordinate 0 to coordinate 1 *)
Definition C06_edge_order_stmt : Prop :=
  List.length of_edges = 12
  /\ (forall a e, a < 3 -> In e (firstn 4 (skipn (4 * a) of_edges)) ->
        edge_axis (fst e) (snd e) = Some a /\ edge_positive (fst e) (snd e) = true)
  /\ (forall i j, i < 12 -> j < 12 -> i <> j ->
        key_of_pair (nth i of_edges (0, 0)) <> key_of_pair (nth j of_edges (0, 0))).

(** every index written (hex entries, boundary quads, projected quads) refers to an existing vertex *)
Definition C06_indices_valid_stmt : Prop :=
  forall m, indices_ok (ast_of table_fm m) = true.

(** every boundary quad and every projected quad is a side of some block: the image, under that
    block's eight vertex indexes, of a proper corner cycle of a side of the reference hexahedron *)
Definition C06_quads_are_sides_stmt : Prop :=
  forall m,
    (forall p qd, In p (f_patches (ast_of table_fm m)) -> In qd (p_quads p) -> is_block_side (ast_of table_fm m) qd)
    /\ (forall qd l, In (qd, l) (f_faces (ast_of table_fm m)) -> is_block_side (ast_of table_fm m) qd).

(** sections are exactly what was declared (full statement) *)
Definition C06_sections_exact_stmt : Prop :=
  forall m, let f := ast_of table_fm m in
  (* hex entries: the non-deleted operations in order, with zone and counts, eight indexes each *)
  (map (fun b => (b_zone b, b_counts b)) (f_blocks f) = map (fun o => (zone_of (o_zone o), o_counts o)) (live_ops m)
   /\ forall b, In b (f_blocks f) -> List.length (b_vids b) = 8)
  (* merged pairs, default patch, settings, header verbatim *)
  /\ (f_merged f = m_merged m /\ f_default f = m_default m
      /\ f_settings f = settings_of (m_settings m) /\ f_header f = m_header m)
  (* every assigned side is in its patch ... *)
  /\ (forall k o b s n, nth_error (live_ops m) k = Some o -> nth_error (f_blocks f) k = Some b ->
        patch_of (o_calls o) s = Some n ->
        exists p qd, In p (f_patches f) /\ p_name p = n /\ In qd (p_quads p)
                     /\ same_set qd (side_quad table_fm (b_vids b) s) = true)
  (* ... and nothing else is *)
  /\ (forall p qd, In p (f_patches f) -> In qd (p_quads p) ->
        exists k o b s, nth_error (live_ops m) k = Some o /\ nth_error (f_blocks f) k = Some b
                        /\ patch_of (o_calls o) s = Some (p_name p) /\ qd = side_quad table_fm (b_vids b) s)
  (* type and settings of a patch: the last modification, else patch / none *)
  /\ (forall p, In p (f_patches f) ->
        match find (fun md => String.eqb (fst (fst md)) (p_name p)) (rev (m_modify_pre m ++ m_modify_post m)) with
        | Some md => p_kind p = snd (fst md)
        | None => p_kind p = "patch"%string /\ p_settings p = []
        end)
  (* every projected side is in the faces section, and nothing else is *)
  /\ (forall k o b s l, nth_error (live_ops m) k = Some o -> nth_error (f_blocks f) k = Some b ->
        pface_of (o_calls o) s = Some l ->
        exists qd l', In (qd, l') (f_faces f) /\ same_set qd (side_quad table_fm (b_vids b) s) = true)
  /\ (forall qd l, In (qd, l) (f_faces f) ->
        exists k o b s, nth_error (live_ops m) k = Some o /\ nth_error (f_blocks f) k = Some b
                        /\ pface_of (o_calls o) s = Some l /\ qd = side_quad table_fm (b_vids b) s)
  (* geometry: the user's dictionaries and the entities' automatic ones, later definitions replacing earlier *)
  /\ (forall n ps, In (n, ps) (f_geometry f) ->
        (exists g, In g (m_geometry m) /\ In (n, ps) g)
        \/ (exists e g, In e (m_depot m) /\ e_geom e = Some g /\ In (n, ps) g)).

(** the part of it that is proved: hex entries and verbatim declarations *)
Definition C06_sections_exact_partial_stmt : Prop :=
  forall m, let f := ast_of table_fm m in
  (map (fun b => (b_zone b, b_counts b)) (f_blocks f) = map (fun o => (zone_of (o_zone o), o_counts o)) (live_ops m)
   /\ forall b, In b (f_blocks f) -> List.length (b_vids b) = 8)
  /\ (f_merged f = m_merged m /\ f_default f = m_default m
      /\ f_settings f = settings_of (m_settings m) /\ f_header f = m_header m).

(** the debug VTK lists the same points and hexahedra *)
Definition C06_vtk_same_stmt : Prop :=
  forall m, fst (vtk_of table_fm m) = map v_pos (f_vertices (ast_of table_fm m))
            /\ snd (vtk_of table_fm m) = map b_vids (f_blocks (ast_of table_fm m)).

(** the vertex lookup of the model (with its integer-cell shortcut) is the plain search for the first
    vertex closer than TOL with the same set of slave patches (VertexList.find_duplicated) *)
Definition C06_vertex_lookup_stmt : Prop :=
  forall vs p sl i, keys_ok vs -> find_vtx vs p (key_pt p) sl i = find_vtx_spec vs p sl i.

(** ** proofs *)
Lemma table_fm_ok : fm_ok table_fm.
Proof. intro s. destruct s; vm_compute; reflexivity. Qed.

Theorem C06_roundtrip : C06_roundtrip_stmt.
Proof. exact (conj roundtrip (fun fm m H => roundtrip (ast_of fm m) H)). Qed.

Theorem C06_face_map_is_hex_side_cycle : C06_face_map_is_hex_side_cycle_stmt.
Proof.
  split; [vm_compute; reflexivity|].
  assert (H : forallb (fun x : side * list nat => is_side_cycle (fst x) (snd x)) tab_side_quad = true) by (vm_compute; reflexivity).
  rewrite forallb_forall in H. intros s q Hin. exact (H _ Hin).
Qed.

Theorem C06_corner_patches : C06_corner_patches_stmt.
Proof.
  split; [vm_compute; reflexivity|].
  assert (H : forallb (fun x : nat * list side => side_set_eqb (snd x) (sides_at (fst x))) tab_corner_sides = true) by (vm_compute; reflexivity).
  rewrite forallb_forall in H. intros c ss Hin. exact (H _ Hin).
Qed.

Theorem C06_edge_order : C06_edge_order_stmt.
Proof. exact edge_order. Qed.

Theorem C06_indices_valid : C06_indices_valid_stmt.
Proof. exact (fun m => indices_valid table_fm m table_fm_ok). Qed.

Theorem C06_quads_are_sides : C06_quads_are_sides_stmt.
Proof. exact (fun m => quads_are_sides table_fm m table_fm_ok). Qed.

Theorem C06_sections_exact_partial : C06_sections_exact_partial_stmt.
Proof. exact (fun m => conj (blocks_are_live_ops table_fm m) (declarations_verbatim table_fm m)). Qed.

Theorem C06_vtk_same : C06_vtk_same_stmt.
Proof. exact (fun m => vtk_same table_fm m). Qed.

Theorem C06_vertex_lookup : C06_vertex_lookup_stmt.
Proof. exact (fun vs p sl i H => find_vtx_is_spec vs p sl H i). Qed.

Print Assumptions C06_roundtrip.
Print Assumptions C06_face_map_is_hex_side_cycle.
Print Assumptions C06_corner_patches.
Print Assumptions C06_edge_order.
Print Assumptions C06_indices_valid.
Print Assumptions C06_quads_are_sides.
Print Assumptions C06_sections_exact_partial.
Print Assumptions C06_vtk_same.
Print Assumptions C06_vertex_lookup.
