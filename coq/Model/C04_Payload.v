(** C04 - executable model of grading propagation WITH the chop payload (DESIGN 5/C04, Appendix A,
    invariant I5): Mesh.grade = BlockList.grade_blocks ; propagate_gradings ; check_consistency, followed
    by Block.format_grading (simpleGrading / edgeGrading choice).

    Transcribed from items/wires/{wire,axis,manager}.py, items/block.py, lists/block_list.py,
    grading/chop.py (Chop.copy_preserving, Chop.invert) and grading/grading.py (Grading.inverted,
    Grading.__eq__, Grading.count).  No proofs in this file.

    - geometry (coincident / aligned wires, neighbour axes) is that of Model/Propagate.v (C01/C02);
    - a user chop enters only through [Chop.copy_preserving], i.e. through
      (length_ratio, results.count, preserve, results[preserve]) - record [uchop]; how these four come out
      of the user's keywords on the axis' average length is C03 (Chop.calculate);
    - a derived chop [chop] is what copy_preserving builds: count + ONE field holding a value + the
      preserve tag.  Reciprocals (Chop.invert: c2c -> 1/c2c; Grading.inverted: E -> 1/E) are kept as a
      parity bit, the number is produced by [cval]/[secE] (python rounds 1/x; compared to 1e-9);
    - [Chop.calculate] on a wire is an ORACLE: [eor w i] is the total expansion it returned when section
      [i] of wire [w] was created (recorded from the implementation).  What it must satisfy (the
      section realises the chop's value on that wire's length, blockMesh's progression of Model/C03) is
      the hypothesis [sections_sound] of the theorems and an [interval] goal of the correspondence;
    - iteration orders of Wire.coincident_list / Axis.neighbour_list are oracle arguments;
    - numbers are exact rationals (binary64 values are dyadic), tolerances are parameters. *)
From Coq Require Import List Bool Arith ZArith QArith Qabs Qminmax Lia.
From CB Require Import Model.Propagate.
Import ListNotations.
Local Open Scope nat_scope.

(** ** payload *)
Inductive fld := PStart | PEnd | PC2c.
Definition fld_eqb (a b : fld) : bool :=
  match a, b with PStart, PStart | PEnd, PEnd | PC2c, PC2c => true | _, _ => false end.
Definition swap_fld (f : fld) : fld := match f with PStart => PEnd | PEnd => PStart | PC2c => PC2c end.

(** what Chop.copy_preserving reads from a user chop: length_ratio, results["count"], preserve,
    results[preserve] *)
Record uchop := { u_lr : Q; u_cnt : Z; u_tag : fld; u_val : Q }.

(** a chop made by copy_preserving: count, one field [c_fld] set to [c_val] (reciprocal if [c_inv]),
    tag [c_tag]; [c_ok = false]: the value was re-derived from another field (outside this model) *)
Record chop := { c_lr : Q; c_cnt : Z; c_fld : fld; c_val : Q; c_inv : bool; c_tag : fld; c_ok : bool }.

Definition pc (u : uchop) : chop :=
  {| c_lr := u_lr u; c_cnt := u_cnt u; c_fld := u_tag u; c_val := u_val u; c_inv := false;
     c_tag := u_tag u; c_ok := true |}.

(** Chop.copy_preserving(): count := results.count; every field None except [preserve] := results[preserve].
    results[preserve] is the given value when the given field IS the preserved one *)
Definition copy_pres (c : chop) : chop :=
  {| c_lr := c_lr c; c_cnt := c_cnt c; c_fld := c_tag c; c_val := c_val c; c_inv := c_inv c;
     c_tag := c_tag c; c_ok := c_ok c && fld_eqb (c_fld c) (c_tag c) |}.

(** Chop.invert (after fixes/C04-1.diff): start <-> end, c2c -> 1/c2c, preserve tag start <-> end *)
Definition invert (c : chop) : chop :=
  {| c_lr := c_lr c; c_cnt := c_cnt c; c_fld := swap_fld (c_fld c); c_val := c_val c;
     c_inv := (match c_fld c with PC2c => negb (c_inv c) | _ => c_inv c end);
     c_tag := swap_fld (c_tag c); c_ok := c_ok c |}.

(** Chop.invert as it was before fixes/C04-1.diff (the preserve tag stayed): kept only to state what went
    wrong (Properties/C04.v, C04_old_invert_loses_value) *)
Definition invert_old (c : chop) : chop :=
  {| c_lr := c_lr c; c_cnt := c_cnt c; c_fld := swap_fld (c_fld c); c_val := c_val c;
     c_inv := (match c_fld c with PC2c => negb (c_inv c) | _ => c_inv c end);
     c_tag := c_tag c; c_ok := c_ok c |}.

Definition cval (c : chop) : Q := if c_inv c then (/ c_val c)%Q else c_val c.

(** ** a section [length_ratio, count, total_expansion] of a wire's Grading.specification, with its
    provenance (ghost fields [s_chop], [s_src]: the chop it was calculated from, on which wire) *)
Record sec := { s_lr : Q; s_cnt : Z; s_E : Q; s_inv : bool; s_chop : chop; s_src : wire }.
Definition flip (s : sec) : sec :=
  {| s_lr := s_lr s; s_cnt := s_cnt s; s_E := s_E s; s_inv := negb (s_inv s); s_chop := s_chop s; s_src := s_src s |}.
(** Grading.inverted: reversed list, 1/total_expansion *)
Definition inv_secs (l : list sec) : list sec := map flip (rev l).
Definition secE (s : sec) : Q := if s_inv s then (/ s_E s)%Q else s_E s.
Definition div3 := (Q * Z * Q)%type.
Definition num (l : list sec) : list div3 := map (fun s => (s_lr s, s_cnt s, secE s)) l.

(** math.isclose(a, b, rel_tol = tau) and Grading.__eq__ *)
Definition isclose (tau a b : Q) : bool := Qle_bool (Qabs (a - b)%Q) (tau * Qmax (Qabs a) (Qabs b))%Q.
Fixpoint spec_close (tau : Q) (l m : list div3) : bool :=
  match l, m with
  | [], [] => true
  | (a, n, e) :: l', (b, k, f) :: m' => isclose tau a b && (n =? k)%Z && isclose tau e f && spec_close tau l' m'
  | _, _ => false
  end.

Record blk4 := { b_verts : list nat; b_chops : list (list uchop) }.
Definition to_blk (b : blk4) : blk :=
  {| verts := b_verts b; uchops := map (map (fun u => Z.to_nat (u_cnt u))) (b_chops b) |}.

Definition is_nil {A} (l : list A) : bool := match l with [] => true | _ => false end.

Section WithBlocks.
  Variable bs : list blk4.
  Variable tau : Q.                       (* constants.TOL *)
  Variable eor : wire -> nat -> Q.        (* Chop.calculate on a wire: the total expansion returned *)
  Variable o_coin : wire -> list wire.
  Variable o_nbrs : axis -> list axis.

  Definition gb : list blk := map to_blk bs.
  Definition nblocks4 : nat := length bs.
  Definition user_chops4 (x : axis) : list uchop :=
    nth (snd x) (b_chops (nth (fst x) bs {| b_verts := []; b_chops := [] |})) [].
  Definition chopped4 (x : axis) : bool := negb (is_nil (user_chops4 x)).

  Record st := { g : wire -> list sec; ach : axis -> list chop }.

  Definition upd_g (f : wire -> list sec) (w : wire) (v : list sec) : wire -> list sec :=
    fun u => if wire_eqb u w then v else f u.
  Definition upd_a (f : axis -> list chop) (x : axis) (v : list chop) : axis -> list chop :=
    fun y => if axis_eqb y x then v else f y.

  (** the chops an axis offers: user chops are only ever read through copy_preserving *)
  Definition init : st := {| g := fun _ => []; ach := fun x => map pc (user_chops4 x) |}.

  Definition w_defined (s : st) (w : wire) : bool := negb (is_nil (g s w)).
  Definition a_defined (s : st) (x : axis) : bool := forallb (w_defined s) (wires_of_axis x).
  Definition b_defined (s : st) (b : nat) : bool := forallb (a_defined s) (axes_of_block b).

  (** Grading.add_chop for every chop of the axis on wire [w] (own length): appended sections *)
  Fixpoint mk_secs (w : wire) (i : nat) (cs : list chop) : list sec :=
    match cs with
    | [] => []
    | c :: r => {| s_lr := c_lr c; s_cnt := c_cnt c; s_E := eor w i; s_inv := false; s_chop := c; s_src := w |}
                :: mk_secs w (S i) r
    end.
  Definition fill (x : axis) (s : st) (w : wire) : st :=
    {| g := upd_g (g s) w (g s w ++ mk_secs w (length (g s w)) (ach s x)); ach := ach s |}.

  (** WireChopManager.grade starts every wire of the axis from an empty Grading (a second mesh.write() must
      not append the chops again) *)
  Definition refill (x : axis) (s : st) (w : wire) : st :=
    {| g := upd_g (g s) w (mk_secs w 0 (ach s x)); ach := ach s |}.

  (** WirePropagateManager.copy_neighbours for one wire: every defined coincident overwrites *)
  Definition copy_wire (s : st) (w : wire) : st :=
    fold_left (fun s c =>
      if w_defined s c
      then {| g := upd_g (g s) w (if aligned gb c w then g s c else inv_secs (g s c)); ach := ach s |}
      else s) (o_coin w) s.

  (** WirePropagateManager.propagate_grading: wires still undefined get the axis' chops *)
  Definition fill_undefined (x : axis) (s : st) (w : wire) : st := if w_defined s w then s else fill x s w.

  Definition grade_axis (s : st) (x : axis) : st :=
    if chopped4 x then fold_left (refill x) (wires_of_axis x) s   (* WireChopManager.grade *)
    else
      let s1 := fold_left copy_wire (wires_of_axis x) s in
      fold_left (fill_undefined x) (wires_of_axis x) s1.

  Definition grade_block (s : st) (b : nat) : st := fold_left grade_axis (axes_of_block b) s.
  Definition grade_blocks (s : st) : st := fold_left grade_block (seq 0 nblocks4) s.

  (** Axis.copy_grading: chops of the first defined neighbour that holds chops, preserving copies,
      inverted and in reversed order when the neighbour runs the other way *)
  Definition has_chops (s : st) (x : axis) : bool := negb (is_nil (ach s x)).
  Definition transported (s : st) (y x : axis) : list chop :=
    if axis_aligned gb y x then map copy_pres (ach s y)
    else map (fun c => invert (copy_pres c)) (rev (ach s y)).
  Definition copy_axis (s : st) (x : axis) : st * bool :=
    if a_defined s x then (s, false)
    else
      match find (fun y => a_defined s y && has_chops s y) (o_nbrs x) with
      | Some y =>
          let s1 := {| g := g s; ach := upd_a (ach s) x (ach s x ++ transported s y x) |} in
          (grade_axis s1 x, true)
      | None => (s, false)
      end.

  Definition copy_block (s : st) (b : nat) : st * bool :=
    if b_defined s b then (s, false)
    else fold_left (fun sb x => let '(s', u) := copy_axis (fst sb) x in (s', u || snd sb)) (axes_of_block b) (s, false).

  Fixpoint scan (s : st) (before todo : list nat) (updated : bool) : st * list nat * bool :=
    match todo with
    | [] => (s, before, updated)
    | i :: rest =>
        if b_defined s i then (s, before ++ rest, true)
        else let '(s', u) := copy_block s i in scan s' (before ++ [i]) rest (u || updated)
    end.

  Inductive loop_result := Done (s : st) | Stuck (s : st) (undef : list nat) | OutOfFuel.

  Fixpoint propagate (fuel : nat) (s : st) (undef : list nat) : loop_result :=
    match undef with
    | [] => Done s
    | _ =>
        match fuel with
        | 0 => OutOfFuel
        | S f =>
            let '(s', undef', updated) := scan s [] undef false in
            if updated then propagate f s' undef' else
              match undef' with [] => Done s' | _ => Stuck s' undef' end
        end
    end.

  (** ** WireManagerBase.check_consistency (after fixes/C04-2.diff): counts on the four wires and on
      coincident wires, and the whole grading on coincident wires (inverted when anti-aligned) *)
  Definition wcount (s : st) (w : wire) : Z := fold_right Z.add 0%Z (map s_cnt (g s w)).
  Definition expected_from (s : st) (w c : wire) : list div3 :=
    if aligned gb c w then num (g s c) else num (inv_secs (g s c)).
  Definition wire_consistent (s : st) (w : wire) : bool :=
    forallb (fun c => (wcount s c =? wcount s w)%Z && spec_close tau (num (g s w)) (expected_from s w c))
            (coin_set gb w).
  Definition axis_consistent (s : st) (x : axis) : bool :=
    forallb (fun w => (wcount s w =? wcount s (fst x, snd x, 0%nat))%Z) (wires_of_axis x)
    && forallb (wire_consistent s) (wires_of_axis x).
  Definition consistent (s : st) : bool := forallb (axis_consistent s) (all_axes nblocks4).

  (** Axis.count *)
  Definition written (s : st) (x : axis) : Z :=
    if chopped4 x then fold_right Z.add 0%Z (map u_cnt (user_chops4 x)) else wcount s (fst x, snd x, 0).

  (** WireManagerBase.is_simple / Block.format_grading *)
  Definition axis_simple (s : st) (x : axis) : bool :=
    forallb (fun k => spec_close tau (num (g s (fst x, snd x, k))) (num (g s (fst x, snd x, 0)))) [1; 2; 3].
  Definition block_simple (s : st) (b : nat) : bool := forallb (axis_simple s) (axes_of_block b).
  (** what is printed: wire 0 of each axis for simpleGrading, all twelve wires for edgeGrading *)
  Definition printed (s : st) (b : nat) : list (list div3) :=
    if block_simple s b then map (fun x => num (g s (fst x, snd x, 0))) (axes_of_block b)
    else map (fun w => num (g s w)) (flat_map wires_of_axis (axes_of_block b)).

  Definition chop_view (c : chop) : Q * Z * fld * Q * fld := (c_lr c, c_cnt c, c_fld c, cval c, c_tag c).
  Definition all_ok (s : st) : bool := forallb (fun x => forallb c_ok (ach s x)) (all_axes nblocks4).

  Inductive outcome :=
  | Ok (counts : list (list Z)) (specs : list (list (list div3))) (simple : list bool)
       (chops : list (list (list (Q * Z * fld * Q * fld))))
  | Undefined | Inconsistent | NoFuel | BadOracle | Outside.

  Definition oracle_ok4 : bool :=
    forallb (fun w => perm_of wire_eqb (o_coin w) (coin_set gb w)) (all_wires nblocks4)
    && forallb (fun x => perm_of axis_eqb (o_nbrs x) (nbr_set gb x)) (all_axes nblocks4).

  Definition fuel4 : nat := 4 * nblocks4 + 2.

  Definition final : option st :=
    match propagate fuel4 (grade_blocks init) (seq 0 nblocks4) with Done s => Some s | _ => None end.

  Definition run : outcome :=
    if negb oracle_ok4 then BadOracle else
    match propagate fuel4 (grade_blocks init) (seq 0 nblocks4) with
    | OutOfFuel => NoFuel
    | Stuck _ _ => Undefined
    | Done s =>
        if negb (all_ok s) then Outside
        else if consistent s
        then Ok (map (fun b => map (written s) (axes_of_block b)) (seq 0 nblocks4))
                (map (fun b => map (fun w => num (g s w)) (flat_map wires_of_axis (axes_of_block b))) (seq 0 nblocks4))
                (map (block_simple s) (seq 0 nblocks4))
                (map (fun b => map (fun x => map chop_view (ach s x)) (axes_of_block b)) (seq 0 nblocks4))
        else Inconsistent
    end.
End WithBlocks.

(** ** comparison with the implementation's observable state (generated case files, vm_compute) *)
Inductive expected :=
| EOk (counts : list (list Z)) (specs : list (list (list div3))) (simple : list bool)
      (chops : list (list (list (Q * Z * fld * Q * fld))))
| EUndefined | EInconsistent | ENoFuel | EOther.

Section Agree.
  Variable eps : Q.   (* 1e-9 relative: float reciprocals vs exact ones *)
  Definition qclose (a b : Q) : bool := isclose eps a b.
  Fixpoint list_agree {A B} (f : A -> B -> bool) (l : list A) (m : list B) : bool :=
    match l, m with
    | [], [] => true
    | a :: l', b :: m' => f a b && list_agree f l' m'
    | _, _ => false
    end.
  Definition div_agree (a b : div3) : bool :=
    let '(x, n, e) := a in let '(y, k, f) := b in qclose x y && (n =? k)%Z && qclose e f.
  Definition chop_agree (a b : Q * Z * fld * Q * fld) : bool :=
    let '(l1, n1, f1, v1, t1) := a in let '(l2, n2, f2, v2, t2) := b in
    qclose l1 l2 && (n1 =? n2)%Z && fld_eqb f1 f2 && qclose v1 v2 && fld_eqb t1 t2.
  Definition agree (o : outcome) (e : expected) : bool :=
    match o, e with
    | Ok c sp k ch, EOk c' sp' k' ch' =>
        list_agree (list_agree Z.eqb) c c'
        && list_agree (list_agree (list_agree div_agree)) sp sp'
        && list_agree Bool.eqb k k'
        && list_agree (list_agree (list_agree chop_agree)) ch ch'
    | Undefined, EUndefined => true
    | Inconsistent, EInconsistent => true
    | NoFuel, ENoFuel => true
    | _, _ => false
    end.
End Agree.

Definition eor_of_list (l : list (wire * list Q)) (w : wire) (i : nat) : Q :=
  match find (fun p => wire_eqb (fst p) w) l with Some p => nth i (snd p) 0%Q | None => 0%Q end.

Definition dir_of_list (l : list (axis * bool)) (x : axis) : bool :=
  match find (fun p => axis_eqb (fst p) x) l with Some p => snd p | None => true end.

Record case := {
  k_id : nat; k_bs : list blk4; k_tau : Q; k_eor : list (wire * list Q);
  k_co : list (wire * list wire); k_nb : list (axis * list axis); k_exp : expected }.

Definition run_case (c : case) : outcome :=
  run (k_bs c) (k_tau c) (eor_of_list (k_eor c)) (o_of_list wire_eqb (k_co c)) (o_of_list axis_eqb (k_nb c)).
Definition bad_case (eps : Q) (c : case) : bool := negb (agree eps (run_case c) (k_exp c)).
Definition mismatching (eps : Q) (cs : list case) : list nat := map k_id (filter (bad_case eps) cs).
