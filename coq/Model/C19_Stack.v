(** C19 - executable model of the nested-list addressing of sketches, shapes and stacks.

    Transcribed from
      construct/flat/sketches/grid.py   Grid.__init__            -> [grid_sketch]
      construct/shape.py                LoftedShape.__init__     -> [lofted]   (lofts[i][j] pairs grid1[i][j] with grid2[i][j])
                                        LoftedShape.operations   -> [shape_ops] (flatten_2d_list)
      construct/stack.py                TransformedStack.__init__-> [tstack]
                                        Stack.grid / operations  -> the nested list itself / [stack_ops]
                                        Stack.get_slice          -> [get_slice]
      construct/shapes/round.py         RoundSolidShape.core/shell -> [round_core] / [round_shell]
      mesh.py                           Mesh.delete + assemble (block per non-deleted operation) -> [assemble_ops]
                                        operation.chop copied to the block of that operation     -> [chop_op]

    No proofs in this file.  Geometry is abstracted: a face of a cartesian sketch is its (column, row)
    pair plus the number of times the stack transformation has been applied to it (its level); an
    operation is the pair (bottom face, top face).  The correspondence check identifies the real
    operations with these triples through the position of their centres. *)
From Coq Require Import List Arith ZArith Bool.
Import ListNotations.

(** * Python list indexing (negative indices count from the end, out of range raises) *)
Definition py_nth {A} (l : list A) (i : Z) : option A :=
  let n := Z.of_nat (length l) in
  if (0 <=? i)%Z then nth_error l (Z.to_nat i)
  else if (- n <=? i)%Z then nth_error l (Z.to_nat (n + i))
  else None.

(** a comprehension raises as soon as one element raises *)
Fixpoint all_some {A} (l : list (option A)) : option (list A) :=
  match l with
  | [] => Some []
  | None :: _ => None
  | Some x :: r => match all_some r with Some r' => Some (x :: r') | None => None end
  end.

(** * Shapes and stacks as nested lists of operations of any type *)
Definition shape_ops {A} (g : list (list A)) : list A := concat g.
Definition stack_ops {A} (g : list (list (list A))) : list A := concat (map shape_ops g).

(** [shape.grid[x][index] for x in range(len(shape.grid))] *)
Definition slice0_shape {A} (g : list (list A)) (idx : Z) : option (list A) :=
  all_some (map (fun row => py_nth row idx) g).
(** [shape.grid[index][y] for y in range(len(shape.grid[index]))] *)
Definition slice1_shape {A} (g : list (list A)) (idx : Z) : option (list A) :=
  py_nth g idx.

(** Stack.get_slice: axis 2 -> shapes[index].operations; axis 0 -> column [index] of every shape;
    anything else -> row [index] of every shape.  [None] = IndexError. *)
Definition get_slice {A} (g : list (list (list A))) (axis : nat) (idx : Z) : option (list A) :=
  match axis with
  | 2 => option_map shape_ops (py_nth g idx)
  | 0 => option_map (@concat A) (all_some (map (fun s => slice0_shape s idx) g))
  | _ => option_map (@concat A) (all_some (map (fun s => slice1_shape s idx) g))
  end.

(** * Construction of a stack on a cartesian grid *)
Definition face := (nat * nat * nat)%type.      (* column ix, row iy, level *)
Definition op := (face * face)%type.            (* bottom face, top face *)

(** Grid.__init__: rows iy = 0..count_2-1 (outer loop), columns ix = 0..count_1-1 (inner loop) *)
Definition grid_sketch (nx ny : nat) : list (list (nat * nat)) :=
  map (fun iy => map (fun ix => (ix, iy)) (seq 0 nx)) (seq 0 ny).

Definition at_level (l : nat) (s : list (list (nat * nat))) : list (list face) :=
  map (map (fun c => (fst c, snd c, l))) s.

Definition mapi {A B} (f : nat -> A -> B) (l : list A) : list B :=
  map (fun p => f (fst p) (snd p)) (combine (seq 0 (length l)) l).

(** LoftedShape.__init__: for i, list_1 in enumerate(grid_1): for j, face_1 in enumerate(list_1):
    Loft(face_1, ..., grid_2[i][j]).  (The lookup in grid_2 cannot fail for sketches of equal layout;
    [d] is the irrelevant default.) *)
Definition lofted {F} (d : F) (s1 s2 : list (list F)) : list (list (F * F)) :=
  mapi (fun i row => mapi (fun j f1 => (f1, nth j (nth i s2 []) d)) row) s1.

(** TransformedStack.__init__: sketch_2 = transformed copy of sketch_1; shape = LoftedShape(sketch_1, sketch_2);
    sketch_1 = copy of sketch_2 *)
Fixpoint tstack (base : list (list (nat * nat))) (lvl repeats : nat) : list (list (list op)) :=
  match repeats with
  | 0 => []
  | S r => lofted (0, 0, 0) (at_level lvl base) (at_level (S lvl) base) :: tstack base (S lvl) r
  end.

Definition stack_grid (nx ny nz : nat) : list (list (list op)) := tstack (grid_sketch nx ny) 0 nz.

(** the operation occupying column i, row j, tier k *)
Definition cell_op (i j k : nat) : op := ((i, j, k), (i, j, S k)).
Definition coord (axis : nat) (o : op) : nat :=
  match axis with
  | 0 => fst (fst (fst o))
  | 1 => snd (fst (fst o))
  | _ => snd (fst o)
  end.
Definition dim (nx ny nz axis : nat) : nat :=
  match axis with 0 => nx | 1 => ny | _ => nz end.

(** * core / shell of round shapes: operations[:len(sketch_1.core)] / operations[len(sketch_1.core):] *)
Definition round_core {A} (ops : list A) (ncore : nat) : list A := firstn ncore ops.
Definition round_shell {A} (ops : list A) (ncore : nat) : list A := skipn ncore ops.

(** * Mesh.delete / Mesh.assemble: one block per operation of the depot that is not deleted, in order *)
Definition assemble_ops {A} (eqb : A -> A -> bool) (ops deleted : list A) : list A :=
  filter (fun o => negb (existsb (eqb o) deleted)) ops.

(** operation.chop(axis): the chop lands in the list of that operation (and hence of its block) *)
Definition chop_op {A} (eqb : A -> A -> bool) (st : list (A * list nat)) (o : A) (axis : nat) : list (A * list nat) :=
  map (fun p => if eqb (fst p) o then (fst p, snd p ++ [axis]) else p) st.

(** * executable comparison helpers used by the correspondence files *)
Definition nat3_eqb (a b : nat * nat * nat) : bool :=
  (fst (fst a) =? fst (fst b)) && (snd (fst a) =? snd (fst b)) && (snd a =? snd b).
Definition op_eqb (a b : op) : bool := nat3_eqb (fst a) (fst b) && nat3_eqb (snd a) (snd b).

Fixpoint list_eqb {A} (e : A -> A -> bool) (l m : list A) : bool :=
  match l, m with
  | [], [] => true
  | x :: l', y :: m' => e x y && list_eqb e l' m'
  | _, _ => false
  end.
Definition opt_eqb {A} (e : A -> A -> bool) (a b : option A) : bool :=
  match a, b with
  | Some x, Some y => e x y
  | None, None => true
  | _, _ => false
  end.

(** model grid of a stack, with operations named by their lattice cell (i, j, k) *)
Definition cell_of (o : op) : nat * nat * nat := fst o.
Definition stack_cells (nx ny nz : nat) : list (list (list (nat * nat * nat))) :=
  map (map (map cell_of)) (stack_grid nx ny nz).
