(** C14 - executable real-valued model of the block / face quality measure.

    Transcribed from [CellBase.quality], [HexCell.get_side_normals], [HexCell.get_inner_angles],
    [QuadCell.get_side_normals], [QuadCell.get_inner_angles], [CellBase.get_edge_lengths]
    (src/classy_blocks/optimize/cell.py).  No proofs in this file.

    What the property is indifferent to is an argument of the model:
    - the side table [T] (corner lists of the sides, in the order of [side_names]) and the list [E]
      of corner pairs whose distance [get_edge_lengths] measures: tabulated behaviourally into
      Gen/C14/Tables.v on every run;
    - the three (base, exponent, factor) triples of [q_scale], the value of the small-number guard
      (one for areas, one for lengths: the code uses VSMALL for both) and the way the guard enters
      ([additive = true]: [norm + eps], the code as found; [additive = false]: [max norm eps], the
      code after fix C14-2): tabulated as well.
    A cell is a function [P : nat -> vec] from corner number to position; the neighbour across side
    slot [i] enters only through its centre [nb i : option vec]. *)
From Coq Require Import Reals ZArith List Bool Arith.
From CB Require Import Base.Vec3.
Import ListNotations.
Open Scope R_scope.

(** max / min written with [Rabs] (the Interval tactic evaluates [Rabs] but not [Rmax]);
    Proofs/C14_Quality.v shows [rmax = Rmax], [rmin = Rmin]. *)
Definition rmax (x y : R) : R := (x + y + Rabs (x - y)) / 2.
Definition rmin (x y : R) : R := (x + y - Rabs (x - y)) / 2.

(** Python's [max(list)] / [min(list)] *)
Definition lmax (l : list R) : R := match l with [] => 0 | x :: r => fold_right rmax x r end.
Definition lmin (l : list R) : R := match l with [] => 0 | x :: r => fold_right rmin x r end.

Definition rsum (l : list R) : R := fold_right Rplus 0 l.

(** arccos on (-1, 1], written through atan (Interval has no acos);
    Proofs/C14_Acos.v shows [macos x = acos x] for [-1 < x <= 1]. *)
Definition macos (x : R) : R := 2 * atan (sqrt ((1 - x) / (1 + x))).
Definition deg (x : R) : R := 180 * x / PI.

Record consts := mkConsts {
  additive : bool;
  eps_a : R;                 (* guard added to / compared with the norm of a triangle normal (an area) *)
  eps_l : R;                 (* guard added to / compared with an edge length *)
  w_no : R * R * R;          (* q_scale(1.25, 0.35, 0.8, .)  non-orthogonality *)
  w_in : R * R * R;          (* q_scale(1.5, 0.25, 0.15, .)  inner angles *)
  w_as : R * R * R           (* q_scale(3, 2.5, 3, .)        aspect ratio *)
}.

(** [q_scale base exponent factor value = factor * base ** (exponent * value) - factor] *)
Definition qs (w : R * R * R) (v : R) : R :=
  let '(b, e, f) := w in f * Rpower b (e * v) - f.

Definition guard (add : bool) (e x : R) : R := if add then x + e else rmax x e.

(** [v / guard(|v|)] *)
Definition unitg (add : bool) (e : R) (v : vec) : vec := vscale (/ guard add e (norm v)) v.
(** [f.unit_vector], [c2c / np.linalg.norm(c2c)] *)
Definition unit (v : vec) : vec := vscale (/ norm v) v.

Definition c4 (a b c d : vec) : vec := vscale (/ 4) (vadd (vadd a b) (vadd c d)).
Definition c2 (a b : vec) : vec := vscale (/ 2) (vadd a b).
Definition centre8 (P : nat -> vec) : vec := vscale (/ 8) (vsum (map P (seq 0 8))).

(** ** hexahedron *)

(** one triangle (side centre, a, b) of the decomposed side: angle between its normal and c2c *)
Definition nonortho1 (k : consts) (sc c2cn a b : vec) : R :=
  let n := cross (vsub a sc) (vsub b sc) in
  qs (w_no k) (deg (macos (dot (unitg (additive k) (eps_a k) n) c2cn))).

(** inner angle of the side at corner [p] between the edges to [next] and to [prev], minus 90 *)
Definition inner1 (k : consts) (prev p next : vec) : R :=
  qs (w_in k)
     (Rabs (deg (macos (dot (unitg (additive k) (eps_l k) (vsub next p))
                            (unitg (additive k) (eps_l k) (vsub prev p)))) - 90)).

Definition side_term (k : consts) (center : vec) (other : option vec) (a b c d : vec) : R :=
  let sc := c4 a b c d in
  let c2c := vsub center (match other with Some o => o | None => sc end) in
  let c2cn := unit c2c in
  (nonortho1 k sc c2cn a b + nonortho1 k sc c2cn b c + nonortho1 k sc c2cn c d + nonortho1 k sc c2cn d a)
  + (inner1 k d a b + inner1 k a b c + inner1 k b c d + inner1 k c d a).

Definition side_term_l (k : consts) (center : vec) (other : option vec) (l : list vec) : R :=
  match l with
  | [a; b; c; d] => side_term k center other a b c d
  | _ => 0
  end.

Definition edge_len (P : nat -> vec) (e : nat * nat) : R := norm (vsub (P (snd e)) (P (fst e))).

(** aspect ratio: one number for the whole cell *)
Definition aspect (k : consts) (lens : list R) : R :=
  qs (w_as k) (ln (lmax lens / guard (additive k) (eps_l k) (lmin lens)) / ln 10).

Definition hexq (k : consts) (T : list (list nat)) (E : list (nat * nat))
           (P : nat -> vec) (nb : nat -> option vec) : R :=
  let center := centre8 P in
  rsum (map (fun i => side_term_l k center (nb i) (map P (nth i T []))) (seq 0 (length T)))
  + aspect k (map (edge_len P) E).

(** ** quadrilateral (sides are the segments (i, i+1); inner angle at corner i) *)
Definition quad_side (k : consts) (center : vec) (other : option vec) (nrm prev a b : vec) : R :=
  let sc := c2 a b in
  let c2c := vsub center (match other with Some o => o | None => sc end) in
  let c2cn := unit c2c in
  qs (w_no k) (deg (macos (dot (unit (cross nrm (vsub b a))) c2cn)))
  + qs (w_in k) (Rabs (deg (macos (dot (unit (vsub b a)) (unit (vsub prev a)))) - 90)).

Definition quadq (k : consts) (E : list (nat * nat)) (P : nat -> vec) (nb : nat -> option vec) : R :=
  let center := c4 (P 0%nat) (P 1%nat) (P 2%nat) (P 3%nat) in
  let nrm := cross (vsub (P 1%nat) (P 0%nat)) (vsub (P 3%nat) (P 0%nat)) in
  (quad_side k center (nb 0%nat) nrm (P 3%nat) (P 0%nat) (P 1%nat)
   + quad_side k center (nb 1%nat) nrm (P 0%nat) (P 1%nat) (P 2%nat)
   + quad_side k center (nb 2%nat) nrm (P 1%nat) (P 2%nat) (P 3%nat)
   + quad_side k center (nb 3%nat) nrm (P 2%nat) (P 3%nat) (P 0%nat))
  + aspect k (map (edge_len P) E).

(** ** reference tables (the hexahedron of Base/Hex.v with inward-pointing side cycles; these are
    the tables the symbolic theorems are proved for; Properties/C14.v checks that the tabulated
    tables of the code are equivalent to them) *)
Definition ref_T : list (list nat) :=
  [[0; 1; 2; 3]; [7; 6; 5; 4]; [4; 0; 3; 7]; [6; 2; 1; 5]; [0; 4; 5; 1]; [7; 3; 2; 6]]%nat.
Definition ref_E : list (nat * nat) :=
  [(0, 1); (3, 2); (7, 6); (4, 5); (0, 3); (1, 2); (5, 6); (4, 7); (0, 4); (1, 5); (2, 6); (3, 7)]%nat.
Definition ref_QE : list (nat * nat) := [(0, 1); (1, 2); (2, 3); (3, 0)]%nat.

(** helpers for the correspondence goals *)
Definition pts (l : list vec) : nat -> vec := fun i => nth i l vzero.
Definition nbs (l : list (option vec)) : nat -> option vec := fun i => nth i l None.
Definition none_nb : nat -> option vec := fun _ => None.

(** ** constants and points as data: exact dyadic literals (mantissa, exponent) written by the harness *)
Definition zd := (Z * Z)%type.
Definition zvec := (zd * zd * zd)%type.
Definition rd (d : zd) : R := dy (fst d) (snd d).
Definition rv (v : zvec) : vec := (rd (fst (fst v)), rd (snd (fst v)), rd (snd v)).
Definition zw := (zd * zd * zd)%type.
Record zconsts := mkZ { z_add : bool; z_ea : zd; z_el : zd; z_no : zw; z_in : zw; z_as : zw }.
Definition rw (w : zw) : R * R * R := (rd (fst (fst w)), rd (snd (fst w)), rd (snd w)).
Definition rk (z : zconsts) : consts := mkConsts (z_add z) (rd (z_ea z)) (rd (z_el z)) (rw (z_no z)) (rw (z_in z)) (rw (z_as z)).
