(** C07 - executable model of the edge list (no proofs in this file).

    Transcribed from /repo/src/classy_blocks/lists/edge_list.py:
      EdgeList.find   first entry whose vertex-index SET equals {v1, v2}
      EdgeList.add    keep the list when such an entry exists; otherwise create the edge and append
                      it when it is valid (Edge.is_valid / ArcEdgeBase.is_valid, an input bit here;
                      the real-valued predicate behind the bit is Model/C07_Dir.v)
      EdgeList.add_from_operation / Mesh.assemble: one [add] per beam of every operation, in order.
    A request is (vertex index 1, vertex index 2, validity bit, tag of the user's definition);
    an entry is (vertex index 1, vertex index 2, tag): the entry keeps the vertices in the order of the
    request that created it and the data of that request. *)
From Coq Require Import List Bool Arith.
Import ListNotations.

Definition entry := (nat * nat * nat)%type.
Definition request := (nat * nat * bool * nat)%type.

(** {a, b} == {c, d} as Python sets *)
Definition same_pair (a b c d : nat) : bool :=
  ((a =? c) && (b =? d)) || ((a =? d) && (b =? c)).

Definition entry_has (v1 v2 : nat) (e : entry) : bool :=
  let '(a, b, _) := e in same_pair v1 v2 a b.

Fixpoint find (l : list entry) (v1 v2 : nat) : option entry :=
  match l with
  | [] => None
  | e :: r => if entry_has v1 v2 e then Some e else find r v1 v2
  end.

Definition add (l : list entry) (r : request) : list entry :=
  let '(v1, v2, valid, tag) := r in
  match find l v1 v2 with
  | Some _ => l
  | None => if valid then l ++ [(v1, v2, tag)] else l
  end.

Definition add_all (l : list entry) (rs : list request) : list entry := fold_left add rs l.

(** number of entries on a vertex pair *)
Definition count_pair (l : list entry) (v1 v2 : nat) : nat := length (filter (entry_has v1 v2) l).

(** comparison of two entry lists up to order (the order of entries in the file is immaterial) *)
Definition entry_eqb (e f : entry) : bool :=
  let '(a, b, t) := e in let '(c, d, u) := f in (a =? c) && (b =? d) && (t =? u).
Definition entries_eqb (l m : list entry) : bool :=
  (length l =? length m) && forallb (fun e => existsb (entry_eqb e) m) l && forallb (fun e => existsb (entry_eqb e) l) m.

(** * The twelve edge slots of an operation and the direction in which the API defines them:
    Face.add_edge(i) on the bottom face: corner i -> i+1 (mod 4); on the top face: i+4 -> (i+1 mod 4)+4;
    Operation.add_side_edge(i): i -> i+4.  Slots 0..3 bottom, 4..7 top, 8..11 side. *)
Definition slot_dir (s : nat) : nat * nat :=
  if s <? 4 then (s, (s + 1) mod 4)
  else if s <? 8 then (s, (s - 4 + 1) mod 4 + 4)
  else (s - 8, s - 4).

Definition slots : list nat := seq 0 12.

(** direction bit of a written entry: 0 = undirected data, 1 = the data run from the first written
    vertex in the user's direction, 2 = against it.  [consistentb s e v1 v2 ord]: the entry written as
    (v1, v2) with that bit describes the user's curve from corner s to corner e. *)
Definition consistentb (s e v1 v2 ord : nat) : bool :=
  match ord with
  | 0 => same_pair v1 v2 s e
  | 1 => (v1 =? s) && (v2 =? e)
  | 2 => (v1 =? e) && (v2 =? s)
  | _ => false
  end.
