(** C11 - closed-form geometry of the disk and ring sketches and of the blocks extruded from them
    (transcribed from FanPattern / FourCoreDisk / Annulus / LoftedShape; no proofs).

    A sketch lives in the plane through [c] spanned by the radius vector [u] and [w = n x u]
    ([n] the unit normal, [u . n = 0]): FanPattern rotates the radius point about the normal by
    multiples of 45 degrees, i.e. to  c + cos(a) u + sin(a) (n x u);  the multiples of 45 degrees are
    written with their exact values (1, sqrt 2 / 2, 0).  core_ratio [cr] and diagonal_ratio [dr]
    are PARAMETERS (DESIGN 1.4); their runtime values are tabulated in Gen/C11/GeomConst.v. *)
From Coq Require Import Reals List Arith Bool.
From CB Require Import Base.Vec3.
Import ListNotations.
Open Scope R_scope.

Definition plane_pt (c u n : vec) (x y : R) : vec :=
  vadd c (vadd (vscale x u) (vscale y (cross n u))).

Definition s2 : R := sqrt 2 / 2.
(** (cos, sin) of k * 45 degrees *)
Definition cs8 (k : nat) : R * R :=
  match (k mod 8)%nat with
  | 0%nat => (1, 0) | 1%nat => (s2, s2) | 2%nat => (0, 1) | 3%nat => (- s2, s2)
  | 4%nat => (-1, 0) | 5%nat => (- s2, - s2) | 6%nat => (0, -1) | _ => (s2, - s2)
  end.

(** FourCoreDisk point numbering: 0 centre; 1..8 inner points (angle index k-1, ratio cr for even
    angle index, dr for odd); 9..16 outer points (angle index k-9) *)
Definition disk_xy (cr dr : R) (k : nat) : R * R :=
  if (k =? 0)%nat then (0, 0)
  else if (k <=? 8)%nat then
    let r := if Nat.even (k - 1) then cr else dr in (r * fst (cs8 (k - 1)), r * snd (cs8 (k - 1)))
  else cs8 (k - 9).
Definition disk_point (cr dr : R) (c u n : vec) (k : nat) : vec :=
  plane_pt c u n (fst (disk_xy cr dr k)) (snd (disk_xy cr dr k)).

Definition four_core_quads : list (list nat) :=
  [[0; 1; 2; 3]; [5; 0; 3; 4]; [6; 7; 0; 5]; [7; 8; 1; 0];
   [1; 9; 10; 2]; [2; 10; 11; 3]; [3; 11; 12; 4]; [4; 12; 13; 5];
   [5; 13; 14; 6]; [6; 14; 15; 7]; [7; 15; 16; 8]; [8; 16; 9; 1]]%nat.

(** the region of the two ratios in which the disk is a valid blocking *)
Definition disk_ratios_ok (cr dr : R) : Prop := 0 < cr < 1 /\ 0 < dr < 1 /\ cr < sqrt 2 * dr.

(** Jacobian at bottom corner k of the block lofted from quad q by the translation [ext]
    (edges to the next corner, to the previous corner and upwards; the four top corners give the
    same four values because the top face is a translate of the bottom face) *)
Definition corner_jacobian (pt : nat -> vec) (ext : vec) (q : list nat) (k : nat) : R :=
  let p := pt (nth k q 0%nat) in
  triple (vsub (pt (nth ((k + 1) mod 4) q 0%nat)) p) (vsub (pt (nth ((k + 3) mod 4) q 0%nat)) p) ext.

(** Annulus with nseg segments: point 2i is the inner, 2i+1 the outer point at angle i * 2 PI / nseg;
    [u] is the UNIT vector towards the outer radius point *)
Definition ring_angle (nseg i : nat) : R := INR i * (2 * PI / INR nseg).
Definition ring_xy (nseg : nat) (ri ro : R) (k : nat) : R * R :=
  let a := ring_angle nseg (k / 2) in
  let r := if Nat.even k then ri else ro in (r * cos a, r * sin a).
Definition ring_point (nseg : nat) (ri ro : R) (c u n : vec) (k : nat) : vec :=
  plane_pt c u n (fst (ring_xy nseg ri ro k)) (snd (ring_xy nseg ri ro k)).
Definition ring_quad (i : nat) : list nat := [2 * i; 2 * i + 1; 2 * (i + 1) + 1; 2 * (i + 1)]%nat.

Definition quads_eqb (x y : list (list nat)) : bool :=
  (length x =? length y)%nat
  && forallb (fun p => (length (fst p) =? length (snd p))%nat
                       && forallb (fun ab => (fst ab =? snd ab)%nat) (combine (fst p) (snd p))) (combine x y).

(** * Lofts between a plane sketch and its translated, scaled copy (Cylinder, SemiCylinder, Frustum,
    ExtrudedRing, ExtrudedShape): the top sketch is the bottom one moved by [ext] and scaled by [rho]
    about its (moved) centre, as RoundSolidShape does with [Translation; Scaling].  The corner
    Jacobians are oriented as in the reference hexahedron: at every corner the edge towards the next
    corner of the quad, the edge towards the previous one and the edge from bottom to top. *)
Definition top_pt (c ext : vec) (rho : R) (p : vec) : vec := vadd (vadd c ext) (vscale rho (vsub p c)).
Definition corner_jacobian_bot (pt : nat -> vec) (top : vec -> vec) (q : list nat) (k : nat) : R :=
  let p := pt (nth k q 0%nat) in
  triple (vsub (pt (nth ((k + 1) mod 4) q 0%nat)) p) (vsub (pt (nth ((k + 3) mod 4) q 0%nat)) p) (vsub (top p) p).
Definition corner_jacobian_top (pt : nat -> vec) (top : vec -> vec) (q : list nat) (k : nat) : R :=
  let p := pt (nth k q 0%nat) in
  triple (vsub (top (pt (nth ((k + 1) mod 4) q 0%nat))) (top p)) (vsub (top (pt (nth ((k + 3) mod 4) q 0%nat))) (top p))
         (vsub (top p) p).


(** HalfDisk and QuarterDisk are parts of the four-core disk: their point numbers in its numbering *)
Definition half_emb (k : nat) : nat := if (k <=? 5)%nat then k else (k + 3)%nat.
Definition quarter_emb (k : nat) : nat := if (k <=? 3)%nat then k else (k + 5)%nat.
