(** C20 - executable models of the precondition guards (no proofs here).

    Three kinds of definitions:
    - [ref_*]: the guards as the code states them, written with the same primitive comparisons the
      guard extractor of harness/props/C20.py emits ([true] = the call is rejected).  They are the
      fall-back when a guard of /repo is no longer inside the extractor's syntactic fragment (the
      behavioural probes then tie them to the implementation) and the shape reference of Gen/C20/Guards.v.
    - [spec_*]: independent statements of the documented preconditions (Prop or bool).
    - small state machines for the guards that depend on history (mesh life cycle, clamps on
      junctions, labels of a projected edge). *)
From Coq Require Import QArith Qabs ZArith Bool List Arith.
From CB Require Import Base.Hex.
Import ListNotations.

(** * scalar guards over Q (numbers the code compares) and Z (indices, counts) *)
Open Scope Q_scope.

(* |axis . radius| <= tol  (SemiCylinder/Cylinder, Frustum, Annulus, coplanarity of a Face) *)
Definition ref_perp (tol d : Q) : bool := negb (Qle_bool (Qabs d) tol).
(* 0 < length_ratio <= 1  (Grading.add_chop) *)
Definition ref_length_ratio (r : Q) : bool := negb (negb (Qle_bool r 0) && Qle_bool r 1).
(* inner radius below outer by at least the merge tolerance  (Annulus) *)
Definition ref_annulus_radii (tol inner outer : Q) : bool := negb (Qle_bool tol (outer - inner)).
(* chain length not negative  (Cylinder.chain, Frustum.chain, ExtrudedRing.chain) *)
Definition ref_chain_length (l : Q) : bool := negb (Qle_bool 0 l).
(* 0 < new inner radius <= inner radius of the source  (ExtrudedRing.contract) *)
Definition ref_contract (inner src : Q) : bool := Qle_bool inner 0 || negb (Qle_bool inner src).

Close Scope Q_scope.
Open Scope Z_scope.

Definition ref_corner4 (c : Z) : bool := negb (0 <=? c) || negb (c <=? 3).
Definition ref_corner8 (c : Z) : bool := negb (0 <=? c) || negb (c <=? 7).
Definition ref_corner_pair8 (a b : Z) : bool :=
  negb ((0 <=? a) && negb (8 <=? a) && ((0 <=? b) && negb (8 <=? b))).
Definition ref_label_count (n : Z) : bool := negb (negb (n <=? 0) && negb (3 <=? n)).
Definition ref_count_is (k n : Z) : bool := negb (n =? k).
Definition ref_count_lt (k n : Z) : bool := negb (k <=? n).
Definition ref_counts_differ (n m : Z) : bool := negb (n =? m).
Definition ref_edges_given (given : bool) (n : Z) : bool := given && negb (n =? 4).

Fixpoint zlist_eqb (a b : list Z) : bool :=
  match a, b with
  | [], [] => true
  | x :: a', y :: b' => (x =? y) && zlist_eqb a' b'
  | _, _ => false
  end.
Definition ref_shape_is (want shape : list Z) : bool := negb (zlist_eqb shape want).

Definition ref_flag_not (b : bool) : bool := negb b.   (* not assembled / not a Disk *)
Definition ref_flag (b : bool) : bool := b.            (* a clamp already there *)

(** executable specifications for the behaviourally tabulated index guards *)
Definition in_range (lo hi c : Z) : bool := (lo <=? c) && (c <=? hi).
Definition hex_edge_z (a b : Z) : bool :=
  in_range 0 7 a && in_range 0 7 b && is_edge (Z.to_nat a) (Z.to_nat b).
Close Scope Z_scope.

(** * mesh life cycle: grade / backport need an assembled mesh *)
Inductive mcall := MAdd | MAssemble | MClear | MGrade | MBackport.

Record mstate := { m_ops : nat; m_assembled : nat (* operations turned into blocks *) }.
Definition m_init : mstate := {| m_ops := 0; m_assembled := 0 |}.

(* Mesh.is_assembled: there are vertices, i.e. at least one operation went through assemble() *)
Definition m_is_assembled (s : mstate) : bool := 0 <? m_assembled s.

Definition m_step (s : mstate) (c : mcall) : option mstate :=
  match c with
  | MAdd => Some {| m_ops := S (m_ops s); m_assembled := m_assembled s |}
  | MAssemble => Some {| m_ops := m_ops s; m_assembled := m_assembled s + m_ops s |}
  | MClear => Some {| m_ops := m_ops s; m_assembled := 0 |}
  | MGrade => if m_is_assembled s then Some s else None
  | MBackport => if m_is_assembled s then Some {| m_ops := m_ops s; m_assembled := m_ops s |} else None
  end.

(** outcome of every call of a history: [true] accepted; a rejected call leaves the state alone *)
Fixpoint m_run (s : mstate) (h : list mcall) : list bool :=
  match h with
  | [] => []
  | c :: r => match m_step s c with
              | Some s' => true :: m_run s' r
              | None => false :: m_run s r
              end
  end.

Fixpoint m_state_after (s : mstate) (h : list mcall) : mstate :=
  match h with
  | [] => s
  | c :: r => match m_step s c with Some s' => m_state_after s' r | None => m_state_after s r end
  end.

(** * clamps and links on the junctions of a grid
    A position is given to the model as the junction it matches within the tolerance, if any
    (the harness computes that with exact rational arithmetic). *)
Inductive gcall :=
| GClamp (at_junction : option nat)
| GLink (leader follower : option nat).

Definition gstate := list nat.   (* junctions that carry a clamp *)

Definition g_step (s : gstate) (c : gcall) : option gstate :=
  match c with
  | GClamp None => None
  | GClamp (Some j) => if existsb (Nat.eqb j) s then None else Some (j :: s)
  | GLink (Some l) (Some f) => if l =? f then None else Some s
  | GLink _ _ => None
  end.

Fixpoint g_run (s : gstate) (h : list gcall) : list bool :=
  match h with
  | [] => []
  | c :: r => match g_step s c with
              | Some s' => true :: g_run s' r
              | None => false :: g_run s r
              end
  end.

Fixpoint g_state_after (s : gstate) (h : list gcall) : gstate :=
  match h with
  | [] => s
  | c :: r => match g_step s c with Some s' => g_state_after s' r | None => g_state_after s r end
  end.

(** * labels of a projected edge: Project(labels) then add_label(labels) ... *)
Fixpoint l_union (have new : list nat) : list nat :=
  match new with
  | [] => have
  | x :: r => if existsb (Nat.eqb x) have then l_union have r else l_union (have ++ [x]) r
  end.

Definition l_ok (l : list nat) : bool := (0 <? length l) && (length l <? 3).

(** first element: the constructor's labels; the rest: add_label calls.  Python's add_label changes
    the list before it checks, so a rejected call still leaves its labels behind. *)
Fixpoint l_run (have : list nat) (h : list (list nat)) : list bool :=
  match h with
  | [] => []
  | new :: r => let have' := l_union have new in l_ok have' :: l_run have' r
  end.

(** whole history of one Project object: constructor (labels kept as given) then add_label calls;
    nothing follows a rejected constructor *)
Definition l_history (ctor : list nat) (adds : list (list nat)) : list bool :=
  l_ok ctor :: (if l_ok ctor then l_run ctor adds else []).
