(** C13 - executable model of the optimizer's bookkeeping (optimize/optimizer.py, grid.py,
    junction.py, iteration.py, clamps/clamp.py, links.py).  No proofs in this file.

    The model is polymorphic in
      X  clamp parameters (ClampBase.params),
      P  points (rows of GridBase.points),
      V  quality values; [leb q0 q1] is the rollback test of optimize_clamp (reporter.improvement <= 0,
         i.e. q0 - q1 <= 0, i.e. q0 <= q1 for binary64 values).
    What the bookkeeping does not depend on is a parameter:
      c_fun   ClampBase.function            (params -> position)
      l_tr    LinkBase.transform            (leader position -> follower position)
      g_gq    GridBase.quality              (point array -> value, [None] = ValueError "Degenerate Cell")
      g_jq    Junction.quality
    and scipy.optimize.minimize / approx_fprime are ORACLES: an arbitrary finite list of trial
    parameter vectors (plus, for minimize, a flag saying that the routine itself ends by raising
    ValueError).  Every theorem of Proofs/C13_Optimizer.v quantifies over all of these. *)
From Coq Require Import List Bool Arith.
Import ListNotations.

(** [upd l i v]: l[i] = v (in place assignment; indices out of range do not occur, see [wfb]) *)
Fixpoint upd {A} (l : list A) (i : nat) (v : A) : list A :=
  match l, i with
  | [], _ => []
  | _ :: r, O => v :: r
  | a :: r, S k => a :: upd r k v
  end.

Section Optimizer.
  Variables X P V : Type.
  Variable leb : V -> V -> bool.

  Record clamp := { c_j : nat; c_fun : X -> P }.
  Record link := { l_fol : nat; l_tr : P -> P }.

  Record grid := {
    g_clamps : list clamp;              (* GridBase.clamps: clamps in junction order; id = position *)
    g_links : nat -> list link;         (* Junction.links of junction j, in insertion order *)
    g_gq : list P -> option V;
    g_jq : nat -> list P -> option V
  }.

  Record state := { pts : list P; prm : list X }.

  (** GridBase.update: the junction's point, then every link's follower *)
  Definition writes (g : grid) (j : nat) (pos : P) : list (nat * P) :=
    (j, pos) :: map (fun l => (l_fol l, l_tr l pos)) (g_links g j).

  Definition apply_writes (p : list P) (ws : list (nat * P)) : list P :=
    fold_left (fun acc w => upd acc (fst w) (snd w)) ws p.

  Definition gu_pts (g : grid) (p : list P) (j : nat) (pos : P) : list P :=
    apply_writes p (writes g j pos).

  Definition grid_update (g : grid) (p : list P) (j : nat) (pos : P) : list P * option V :=
    let p' := gu_pts g p j pos in
    match g_links g j with
    | [] => (p', g_jq g j p')
    | _ :: _ => (p', g_gq g p')
    end.

  (** clamp.update_params(x); grid.update(junction.index, clamp.position) *)
  Definition move (g : grid) (c : clamp) (cid : nat) (st : state) (x : X) : state * option V :=
    let '(p', q) := grid_update g (pts st) (c_j c) (c_fun c x) in
    ({| pts := p'; prm := upd (prm st) cid x |}, q).

  (** the objective of optimize_clamp evaluated on the minimiser's trial points; stops at the first
      evaluation that raises (the exception propagates through scipy) *)
  Fixpoint run_trials (g : grid) (c : clamp) (cid : nat) (st : state) (trials : list X) : state * bool :=
    match trials with
    | [] => (st, true)
    | x :: r =>
        let '(st', q) := move g c cid st x in
        match q with
        | Some _ => run_trials g c cid st' r
        | None => (st', false)
        end
    end.

  (** the objective of _get_sensitivity: update, then junction.quality *)
  Fixpoint run_probe (g : grid) (c : clamp) (cid : nat) (st : state) (evals : list X) : state * bool :=
    match evals with
    | [] => (st, true)
    | x :: r =>
        let '(st', q) := move g c cid st x in
        match q, g_jq g (c_j c) (pts st') with
        | Some _, Some _ => run_probe g c cid st' r
        | _, _ => (st', false)
        end
    end.

  Record oracle := { o_trials : list X; o_raises : bool }.

  Inductive outcome :=
  | Kept (q0 q1 : V)          (* improvement > 0: the last trial stays *)
  | RolledBack (q0 q1 : V)    (* improvement <= 0: initial params restored ("Rollback") *)
  | Skipped                   (* ValueError during minimisation: initial params restored ("Skip") *)
  | Probed                    (* _get_sensitivity finished *)
  | Measured (q : V)          (* IterationDriver.begin_iteration / end_iteration(grid.quality) *)
  | Raised.                   (* an exception leaves the optimizer *)

  (** the [except ValueError] branch: reporter.skip(); restore *)
  Definition skip_branch (g : grid) (c : clamp) (cid : nat) (st1 : state) (x0 : X) : state * outcome :=
    let '(st2, q) := move g c cid st1 x0 in
    (st2, match q with Some _ => Skipped | None => Raised end).

  Definition optimize_clamp (g : grid) (cid : nat) (st : state) (o : oracle) : state * outcome :=
    match nth_error (g_clamps g) cid, nth_error (prm st) cid with
    | Some c, Some x0 =>
        match g_gq g (pts st), g_jq g (c_j c) (pts st) with
        | Some q0, Some _ =>
            let '(st1, ok) := run_trials g c cid st (o_trials o) in
            if ok && negb (o_raises o) then
              match g_jq g (c_j c) (pts st1), g_gq g (pts st1) with
              | Some _, Some q1 =>
                  if leb q0 q1 then
                    (* reporter.improvement <= 0 *)
                    let '(st2, q) := move g c cid st1 x0 in
                    match q with
                    | Some _ => (st2, RolledBack q0 q1)
                    | None => skip_branch g c cid st2 x0
                    end
                  else (st1, Kept q0 q1)
              | _, _ => skip_branch g c cid st1 x0
              end
            else skip_branch g c cid st1 x0
        | _, _ => (st, Raised)
        end
    | _, _ => (st, Raised)
    end.

  Definition probe (g : grid) (cid : nat) (st : state) (evals : list X) : state * outcome :=
    match nth_error (g_clamps g) cid, nth_error (prm st) cid with
    | Some c, Some x0 =>
        let '(st1, ok) := run_probe g c cid st evals in
        if ok then
          let '(st2, q) := move g c cid st1 x0 in
          (st2, match q with Some _ => Probed | None => Raised end)
        else (st1, Raised)
    | _, _ => (st, Raised)
    end.

  Inductive event :=
  | EMeasure                               (* driver.begin_iteration / end_iteration *)
  | EProbe (cid : nat) (evals : list X)
  | EOpt (cid : nat) (o : oracle).

  Definition step (g : grid) (st : state) (e : event) : state * outcome :=
    match e with
    | EMeasure => (st, match g_gq g (pts st) with Some q => Measured q | None => Raised end)
    | EProbe cid evals => probe g cid st evals
    | EOpt cid o => optimize_clamp g cid st o
    end.

  Definition is_raised (o : outcome) : bool := match o with Raised => true | _ => false end.

  (** runs the events until one raises; returns the state before every executed event together
      with its outcome, and the final state *)
  Fixpoint run_events (g : grid) (st : state) (evs : list event) : list (state * outcome) * state :=
    match evs with
    | [] => ([], st)
    | e :: r =>
        let '(st', o) := step g st e in
        if is_raised o then ([(st, o)], st')
        else let '(tr, fin) := run_events g st' r in ((st, o) :: tr, fin)
    end.

  Definition completed (tr : list (state * outcome)) : bool :=
    forallb (fun so => negb (is_raised (snd so))) tr.

  (** one pass of optimize(): begin_iteration, sensitivity of every clamp (in grid.clamps order),
      optimize_clamp in the order given by the sort (an oracle), end_iteration *)
  Definition iteration_events (probes : list (list X)) (order : list (nat * oracle)) : list event :=
    EMeasure :: map (fun ce => EProbe (fst ce) (snd ce)) (combine (seq 0 (length probes)) probes)
    ++ map (fun co => EOpt (fst co) (snd co)) order ++ [EMeasure].

  Definition optimize_events (its : list (list (list X) * list (nat * oracle))) : list event :=
    flat_map (fun it => iteration_events (fst it) (snd it)) its.

  (** optimize(): the iterations, then backport (only when nothing raised); [mesh] is the list of
      vertex positions of the mesh (MeshOptimizer.backport: vertices[i].move_to(points[i])) *)
  Definition optimize (g : grid) (st : state) (mesh : list P)
             (its : list (list (list X) * list (nat * oracle))) : list (state * outcome) * state * list P :=
    let '(tr, fin) := run_events g st (optimize_events its) in
    (tr, fin, if completed tr then pts fin else mesh).

  (** SketchOptimizer.backport = MappedSketch.update(points): every face gets the points its
      quad addresses; MappedSketch.positions reads them back through the first occurrence *)
  Definition sketch_update (quads : list (list nat)) (p : list P) : list (list (option P)) :=
    map (fun quad => map (fun i => nth_error p i) quad) quads.

  Fixpoint index_of (i : nat) (l : list nat) : option nat :=
    match l with
    | [] => None
    | a :: r => if a =? i then Some 0 else option_map S (index_of i r)
    end.

  Definition sketch_position (quads : list (list nat)) (faces : list (list (option P))) (i : nat) : option P :=
    match index_of i (concat quads) with
    | Some n => match nth_error (concat faces) n with Some (Some p) => Some p | _ => None end
    | None => None
    end.

  (** well-formedness of a grid for a point array of length [n]: what the generators produce and
      what the theorems assume (checked in Coq on every correspondence case) *)
  Definition followers (g : grid) (j : nat) : list nat := map l_fol (g_links g j).
  Definition touched (g : grid) (c : clamp) : list nat := c_j c :: followers g (c_j c).

  Fixpoint nodupb (l : list nat) : bool :=
    match l with
    | [] => true
    | a :: r => negb (existsb (Nat.eqb a) r) && nodupb r
    end.

  Definition wfb (g : grid) (n : nat) : bool :=
    nodupb (flat_map (touched g) (g_clamps g))
    && forallb (fun i => i <? n) (flat_map (touched g) (g_clamps g)).

  Definition shape_ok (nclamps : nat) (it : list (list X) * list (nat * oracle)) : bool :=
    (length (fst it) =? nclamps) && (length (snd it) =? nclamps)
    && forallb (fun c => existsb (fun co => fst co =? c) (snd it)) (seq 0 nclamps).

End Optimizer.

Arguments c_j {X P}. Arguments c_fun {X P}. Arguments l_fol {P}. Arguments l_tr {P}.
Arguments g_clamps {X P V}. Arguments g_links {X P V}. Arguments g_gq {X P V}. Arguments g_jq {X P V}.
Arguments pts {X P}. Arguments prm {X P}.
Arguments o_trials {X}. Arguments o_raises {X}.
Arguments Kept {V}. Arguments RolledBack {V}. Arguments Skipped {V}. Arguments Probed {V}.
Arguments Measured {V}. Arguments Raised {V}.
Arguments EMeasure {X}. Arguments EProbe {X}. Arguments EOpt {X}.
Arguments writes {X P V}. Arguments apply_writes {P}. Arguments gu_pts {X P V}.
Arguments grid_update {X P V}. Arguments move {X P V}. Arguments run_trials {X P V}.
Arguments run_probe {X P V}. Arguments skip_branch {X P V}. Arguments optimize_clamp {X P V}.
Arguments probe {X P V}. Arguments step {X P V}. Arguments is_raised {V}.
Arguments run_events {X P V}. Arguments completed {X P V}. Arguments iteration_events {X}.
Arguments optimize_events {X}. Arguments optimize {X P V}. Arguments sketch_update {P}.
Arguments sketch_position {P}. Arguments followers {X P V}. Arguments touched {X P V}.
Arguments wfb {X P V}. Arguments shape_ok {X}.
