(** C03 - executable model of classy_blocks/grading/relations.py, chop.py (Chop.__post_init__,
    Chop.calculate, Chop.invert) and grading.py (Grading.add_chop, Grading.inverted).

    Class N with an F part (DESIGN 1.1, 5/C03, appendix D).  No proofs in this file.

    - the nine closed-form relations are real functions with the code's branch and validation
      structure; [None] is "the implementation raises" (any exception class);
    - the three brentq relations are their validation/shortcut structure around an ORACLE
      ([brentq] record): the value scipy returned.  What the oracle is assumed to satisfy (the defining
      equation) is [brentq_sound]; it is a hypothesis of the theorems and a residual goal of the
      correspondence, never an axiom;
    - [tau] is constants.TOL (a parameter; its current value is tabulated in Gen/C03/RelTable.v);
    - the relation table (output, input_1, input_2) in iteration order is an argument of [calculate]
      and is tabulated from ChopRelation.get_possible_combinations() on every run;
    - python's int() is truncation ([Ztrunc]); counts are [Z]; python's float**int is [powerRZ],
      float**float is [Rpower] (the model is about positive ratios, the property's quantifier);
    - Proofs/C03_SourceEq.v (compiled on every run) proves that the twelve relations below are equal, for all
      arguments, to the translation Gen/C03/Source.v of relations.py as it is in the working tree. *)
From Coq Require Import Reals ZArith List Bool.
From Flocq Require Import Core.Raux.
Import ListNotations.
Open Scope R_scope.

(** ** blockMesh's geometric progression (the independent specification) *)
Fixpoint gsum (r : R) (n : nat) : R :=
  match n with O => 0 | S k => gsum r k + r ^ k end.

(** cell-to-cell ratio blockMesh uses for [n] cells and total expansion [E] *)
Definition bm_ratio (n : nat) (E : R) : R :=
  match n with O => 1 | S O => 1 | _ => Rpower E (/ INR (n - 1)) end.
Definition bm_first (L : R) (n : nat) (E : R) : R := L / gsum (bm_ratio n E) n.
Definition bm_cell (L : R) (n : nat) (E : R) (i : nat) : R := bm_first L n E * bm_ratio n E ^ i.
Definition bm_last (L : R) (n : nat) (E : R) : R := bm_cell L n E (n - 1).
Definition bm_cells (L : R) (n : nat) (E : R) : list R := map (bm_cell L n E) (seq 0 n).

(** ** helpers *)
Definition pyint (x : R) : Z := Ztrunc x.
Definition bind {A B : Type} (x : option A) (f : A -> option B) : option B :=
  match x with Some a => f a | None => None end.
Definition guard {A : Type} (b : bool) (x : option A) : option A := if b then x else None.
Definition Rltb (a b : R) : bool := if Rlt_dec a b then true else false.
Definition Rleb (a b : R) : bool := if Rle_dec a b then true else false.
Definition Reqb (a b : R) : bool := if Req_EM_T a b then true else false.

(** the scipy.optimize.brentq calls, as an oracle *)
Record brentq := {
  bq_c2c_start : R -> Z -> R -> option R;  (* length count start_size -> c2c *)
  bq_c2c_end : R -> Z -> R -> option R;    (* length count end_size   -> c2c *)
  bq_count : R -> R -> R -> option R       (* length total start_size -> real root cnt *)
}.

(** the function whose root [get_count__total_expansion__start_size] looks for, plus length/start *)
Definition Gcode (x E : R) : R := (1 - Rpower E (x / (x - 1))) / (1 - Rpower E (1 / (x - 1))).

Definition brentq_sound (bq : brentq) : Prop :=
  (forall L n s r, bq_c2c_start bq L n s = Some r -> 0 < r /\ s * gsum r (Z.to_nat n) = L) /\
  (forall L n e r, bq_c2c_end bq L n e = Some r ->
     0 < r /\ e * gsum r (Z.to_nat n) = L * r ^ (Z.to_nat n - 1)) /\
  (forall L E s x, bq_count bq L E s = Some x -> 0 < x /\ x <> 1 /\ Gcode x E = L / s).

(** ** the twelve relations (names: output_input1_input2 as in relations.py) *)
Section Relations.
Variable tau : R.
Variable bq : brentq.
Variable L : R.

Definition valid_length : bool := Rltb 0 L.

(* get_start_size__count__c2c_expansion; 1 - r^n = 0 outside the band (r = -1, n even) is python's
   ZeroDivisionError *)
Definition start_count_c2c (n : Z) (r : R) : option R :=
  guard valid_length (guard (1 <=? n)%Z
    (if Rltb tau (Rabs (r - 1)) then
       guard (negb (Reqb (1 - powerRZ r n) 0)) (Some (L * (1 - r) / (1 - powerRZ r n)))
     else Some (L / IZR n))).

(* get_start_size__end_size__total_expansion *)
Definition start_end_total (e E : R) : option R :=
  guard valid_length (guard (negb (Reqb E 0)) (Some (e / E))).

(* get_end_size__start_size__total_expansion *)
Definition end_start_total (s E : R) : option R :=
  guard valid_length (Some (s * E)).

(* get_count__start_size__c2c_expansion : np.log of a non-positive number gives nan/-inf and int() raises.
   [x_*] is the real number before rounding, [count_*] = int(x) + 1 *)
Definition x_start_c2c (s r : R) : option R :=
  guard valid_length (guard (Rltb 0 s) (guard (negb (Reqb r 0))
    (if Rltb tau (Rabs (r - 1)) then
       guard (Rltb 0 r && Rltb 0 (1 - L / s * (1 - r)))
         (Some (ln (1 - L / s * (1 - r)) / ln r))
     else Some (L / s)))).
Definition count_start_c2c (s r : R) : option Z :=
  option_map (fun x => (pyint x + 1)%Z) (x_start_c2c s r).

(* get_count__end_size__c2c_expansion *)
Definition x_end_c2c (e r : R) : option R :=
  guard valid_length (guard (negb (Reqb e 0))
    (if Rltb tau (Rabs (r - 1)) then
       guard (Rltb 0 r && Rltb 0 (1 + L / e * (1 - r) / r))
         (Some (ln (1 / (1 + L / e * (1 - r) / r)) / ln r))
     else Some (L / e))).
Definition count_end_c2c (e r : R) : option Z :=
  option_map (fun x => (pyint x + 1)%Z) (x_end_c2c e r).

(* get_count__total_expansion__c2c_expansion *)
Definition x_total_c2c (E r : R) : option R :=
  guard valid_length (guard (negb (Reqb E 0)) (guard (Rltb tau (Rabs (r - 1)))
    (guard (Rltb 0 E && Rltb 0 r) (Some (ln E / ln r))))).
Definition count_total_c2c (E r : R) : option Z :=
  option_map (fun x => (pyint x + 1)%Z) (x_total_c2c E r).

(* get_count__total_expansion__start_size; the near-uniform branch rounds UP (fixes/C03-1.diff) *)
Definition d_min (E s : R) : R := if Rltb 1 E then s else s * E.
Definition count_total_start (E s : R) : option Z :=
  guard valid_length (guard (Rltb 0 s) (guard (negb (Reqb E 0))
    (if Rltb (Rabs (E - 1)) tau then Some (Zceil (L / d_min E s))
     else bind (bq_count bq L E s) (fun x => Some (pyint x + 1)%Z)))).

(* get_c2c_expansion__count__start_size *)
Definition c2c_count_start (n : Z) (s : R) : option R :=
  guard valid_length (guard (1 <=? n)%Z (guard (Rltb s L && Rltb 0 s)
    (if (n =? 1)%Z then Some 1
     else if Rltb (Rabs (IZR n * s - L) / L) tau then Some 1
     else bq_c2c_start bq L n s))).

(* get_c2c_expansion__count__end_size; count = 1 away from the shortcut divides by zero *)
Definition c2c_count_end (n : Z) (e : R) : option R :=
  guard valid_length (guard (1 <=? n)%Z (guard (Rltb 0 e)
    (if Rltb (Rabs (IZR n * e - L) / L) tau then Some 1
     else if (n =? 1)%Z then None
     else bq_c2c_end bq L n e))).

(* get_c2c_expansion__count__total_expansion *)
Definition c2c_count_total (n : Z) (E : R) : option R :=
  guard valid_length (guard (1 <? n)%Z (Some (Rpower E (1 / IZR (n - 1))))).

(* get_total_expansion__count__c2c_expansion *)
Definition total_count_c2c (n : Z) (r : R) : option R :=
  guard valid_length (guard (1 <=? n)%Z (Some (powerRZ r (n - 1)))).

(* get_total_expansion__start_size__end_size *)
Definition total_start_end (s e : R) : option R :=
  guard valid_length (guard (Rltb 0 s) (guard (Rltb 0 e) (Some (e / s)))).

(** ** Chop: the five quantities, the closure loop *)
Inductive field := FCount | FTotal | FC2c | FStart | FEnd.

Record data := mk_data {
  d_count : option Z; d_total : option R; d_c2c : option R; d_start : option R; d_end : option R }.

Definition isSome {A : Type} (x : option A) : bool := match x with Some _ => true | None => false end.
Definition has (d : data) (f : field) : bool :=
  match f with
  | FCount => isSome (d_count d) | FTotal => isSome (d_total d) | FC2c => isSome (d_c2c d)
  | FStart => isSome (d_start d) | FEnd => isSome (d_end d)
  end.
Definition complete (d : data) : bool :=
  has d FCount && has d FTotal && has d FC2c && has d FStart && has d FEnd.

Definition set_count (d : data) (v : Z) := mk_data (Some v) (d_total d) (d_c2c d) (d_start d) (d_end d).
Definition set_total (d : data) (v : R) := mk_data (d_count d) (Some v) (d_c2c d) (d_start d) (d_end d).
Definition set_c2c (d : data) (v : R) := mk_data (d_count d) (d_total d) (Some v) (d_start d) (d_end d).
Definition set_start (d : data) (v : R) := mk_data (d_count d) (d_total d) (d_c2c d) (Some v) (d_end d).
Definition set_end (d : data) (v : R) := mk_data (d_count d) (d_total d) (d_c2c d) (d_start d) (Some v).

Definition rel := (field * field * field)%type.  (* output, input_1, input_2 : the function's own argument order *)

(** call the relation named by the triple on the stored values; [None] = it raised (or the name is
    not one of the twelve known functions: fail closed) *)
Definition fire (t : rel) (d : data) : option data :=
  match t with
  | (FC2c, FCount, FEnd) => bind (d_count d) (fun n => bind (d_end d) (fun e => option_map (set_c2c d) (c2c_count_end n e)))
  | (FC2c, FCount, FStart) => bind (d_count d) (fun n => bind (d_start d) (fun s => option_map (set_c2c d) (c2c_count_start n s)))
  | (FC2c, FCount, FTotal) => bind (d_count d) (fun n => bind (d_total d) (fun E => option_map (set_c2c d) (c2c_count_total n E)))
  | (FCount, FEnd, FC2c) => bind (d_end d) (fun e => bind (d_c2c d) (fun r => option_map (set_count d) (count_end_c2c e r)))
  | (FCount, FStart, FC2c) => bind (d_start d) (fun s => bind (d_c2c d) (fun r => option_map (set_count d) (count_start_c2c s r)))
  | (FCount, FTotal, FC2c) => bind (d_total d) (fun E => bind (d_c2c d) (fun r => option_map (set_count d) (count_total_c2c E r)))
  | (FCount, FTotal, FStart) => bind (d_total d) (fun E => bind (d_start d) (fun s => option_map (set_count d) (count_total_start E s)))
  | (FEnd, FStart, FTotal) => bind (d_start d) (fun s => bind (d_total d) (fun E => option_map (set_end d) (end_start_total s E)))
  | (FStart, FCount, FC2c) => bind (d_count d) (fun n => bind (d_c2c d) (fun r => option_map (set_start d) (start_count_c2c n r)))
  | (FStart, FEnd, FTotal) => bind (d_end d) (fun e => bind (d_total d) (fun E => option_map (set_start d) (start_end_total e E)))
  | (FTotal, FCount, FC2c) => bind (d_count d) (fun n => bind (d_c2c d) (fun r => option_map (set_total d) (total_count_c2c n r)))
  | (FTotal, FStart, FEnd) => bind (d_start d) (fun s => bind (d_end d) (fun e => option_map (set_total d) (total_start_end s e)))
  | _ => None
  end.

Definition step (d : data) (t : rel) : option data :=
  let '(o, i1, i2) := t in
  if has d o then Some d else if has d i1 && has d i2 then fire t d else Some d.

Fixpoint sweep (table : list rel) (d : data) : option data :=
  match table with
  | [] => Some d
  | t :: rest => bind (step d t) (sweep rest)
  end.

(** [for _ in range(12)]: test for completeness first, then one sweep over the table *)
Fixpoint rounds (table : list rel) (fuel : nat) (d : data) : option data :=
  match fuel with
  | O => None
  | S f => if complete d then Some d else bind (sweep table d) (rounds table f)
  end.

Definition calculate (table : list rel) (d : data) : option data := rounds table 12 d.

(** what Chop.calculate returns *)
Definition returned (d : data) : option (Z * R) :=
  bind (d_count d) (fun n => bind (d_total d) (fun E => Some (n, E))).

(** ** the plans: which relations fire, in which order, for each of the ten input pairs
    (Properties/C03.v proves, against the tabulated table, that [calculate] IS this) *)
Definition plan_count_c2c (n : Z) (r : R) : option data :=
  bind (start_count_c2c n r) (fun s => bind (total_count_c2c n r) (fun E =>
  bind (end_start_total s E) (fun e => Some (mk_data (Some n) (Some E) (Some r) (Some s) (Some e))))).
Definition plan_count_total (n : Z) (E : R) : option data :=
  bind (c2c_count_total n E) (fun r => bind (start_count_c2c n r) (fun s =>
  bind (end_start_total s E) (fun e => Some (mk_data (Some n) (Some E) (Some r) (Some s) (Some e))))).
Definition plan_count_start (n : Z) (s : R) : option data :=
  bind (c2c_count_start n s) (fun r => bind (total_count_c2c n r) (fun E =>
  bind (end_start_total s E) (fun e => Some (mk_data (Some n) (Some E) (Some r) (Some s) (Some e))))).
Definition plan_count_end (n : Z) (e : R) : option data :=
  bind (c2c_count_end n e) (fun r => bind (start_count_c2c n r) (fun s =>
  bind (total_count_c2c n r) (fun E => Some (mk_data (Some n) (Some E) (Some r) (Some s) (Some e))))).
Definition plan_start_c2c (s r : R) : option data :=
  bind (count_start_c2c s r) (fun n => bind (total_count_c2c n r) (fun E =>
  bind (end_start_total s E) (fun e => Some (mk_data (Some n) (Some E) (Some r) (Some s) (Some e))))).
Definition plan_end_c2c (e r : R) : option data :=
  bind (count_end_c2c e r) (fun n => bind (start_count_c2c n r) (fun s =>
  bind (total_count_c2c n r) (fun E => Some (mk_data (Some n) (Some E) (Some r) (Some s) (Some e))))).
Definition plan_total_c2c (E r : R) : option data :=
  bind (count_total_c2c E r) (fun n => bind (start_count_c2c n r) (fun s =>
  bind (end_start_total s E) (fun e => Some (mk_data (Some n) (Some E) (Some r) (Some s) (Some e))))).
Definition plan_total_start (E s : R) : option data :=
  bind (count_total_start E s) (fun n => bind (end_start_total s E) (fun e =>
  bind (c2c_count_end n e) (fun r => Some (mk_data (Some n) (Some E) (Some r) (Some s) (Some e))))).
Definition plan_total_end (E e : R) : option data :=
  bind (start_end_total e E) (fun s => bind (count_total_start E s) (fun n =>
  bind (c2c_count_end n e) (fun r => Some (mk_data (Some n) (Some E) (Some r) (Some s) (Some e))))).
Definition plan_start_end (s e : R) : option data :=
  bind (total_start_end s e) (fun E => bind (count_total_start E s) (fun n =>
  bind (c2c_count_end n e) (fun r => Some (mk_data (Some n) (Some E) (Some r) (Some s) (Some e))))).

End Relations.

(** ** symbolic closure (which relation fires depends only on which fields are known) *)
Definition fset := field -> bool.
Definition field_eqb (a b : field) : bool :=
  match a, b with
  | FCount, FCount | FTotal, FTotal | FC2c, FC2c | FStart, FStart | FEnd, FEnd => true
  | _, _ => false
  end.
Definition fadd (k : fset) (f : field) : fset := fun g => field_eqb f g || k g.
Definition fcomplete (k : fset) : bool := k FCount && k FTotal && k FC2c && k FStart && k FEnd.
Definition sym_step (acc : fset * list rel) (t : rel) : fset * list rel :=
  let '(k, fired) := acc in
  let '(o, i1, i2) := t in
  if k o then acc else if k i1 && k i2 then (fadd k o, fired ++ [t]) else acc.
Fixpoint sym_rounds (table : list rel) (fuel : nat) (acc : fset * list rel) : option (list rel) :=
  match fuel with
  | O => None
  | S f => if fcomplete (fst acc) then Some (snd acc) else sym_rounds table f (fold_left sym_step table acc)
  end.
Definition fset_of (l : list field) : fset := fun g => existsb (field_eqb g) l.
Definition plan_of (table : list rel) (given : list field) : option (list rel) :=
  sym_rounds table 12 (fset_of given, []).

(** ** Chop.__post_init__ and Chop.invert *)
Definition n_given (d : data) : nat :=
  (if has d FCount then 1 else 0) + (if has d FTotal then 1 else 0) + (if has d FC2c then 1 else 0)
  + (if has d FStart then 1 else 0) + (if has d FEnd then 1 else 0).
Definition post_init (d : data) : data :=
  let d1 := if (n_given d <? 2)%nat then (if has d FC2c then d else set_c2c d 1) else d in
  mk_data (option_map (fun n => Z.max n 1) (d_count d1)) (d_total d1) (d_c2c d1) (d_start d1) (d_end d1).
Definition invert (d : data) : data :=
  mk_data (d_count d) (option_map Rinv (d_total d)) (option_map Rinv (d_c2c d)) (d_end d) (d_start d).

(** ** Grading: specification = list of [length_ratio, count, total_expansion] *)
Definition division := (R * Z * R)%type.
Definition add_chop (tau : R) (bq : brentq) (table : list rel) (L : R) (spec : list division)
    (length_ratio : R) (d : data) : option (list division) :=
  guard (Rltb 0 length_ratio && Rleb length_ratio 1)
    (bind (calculate tau bq (L * length_ratio) table d) (fun res =>
     bind (returned res) (fun nE => Some (spec ++ [(length_ratio, fst nE, snd nE)])))).
Definition inverted (spec : list division) : list division :=
  map (fun dv => (fst (fst dv), snd (fst dv), / snd dv)) (rev spec).
(** blockMesh's cells of a multi-grading on an edge of length [L] (length ratios as written) *)
Definition grading_cells (L : R) (spec : list division) : list R :=
  flat_map (fun dv => bm_cells (L * fst (fst dv)) (Z.to_nat (snd (fst dv))) (snd dv)) spec.

(** ** agreement predicates used by the generated correspondence goals *)
Definition agreesR (m : option R) (out tol : R) : Prop :=
  match m with Some v => Rabs (v - out) <= tol | None => False end.
(** a count [n = int(x) + 1]: exact unless the real [x] is within [eps] of the discontinuity *)
Definition int_plus1_is (m : option R) (n : Z) (eps : R) : Prop :=
  match m with
  | Some x => 0 <= x + eps /\ IZR (n - 1) - eps <= x /\ x < IZR n + eps
  | None => False
  end.
(** [n = ceil(x)] likewise *)
Definition ceil_is (x : R) (n : Z) (eps : R) : Prop := IZR (n - 1) - eps < x /\ x <= IZR n + eps.
