(** C18 - executable model of [ViewpointReorienter.reorient] (no proofs here).

    Transcribed from modify/reorient/viewpoint.py.

    Points are identified by their index in the *input* numbering [operation.point_array]
    (0..7); the eight positions are pairwise further apart than [constants.TOL], so "same position
    within TOL" (Quadrangle.get_common_points / get_unique_points) is equality of indices.

    Oracles (DESIGN section 3):
    - [hull : list tri] stands for [ConvexHull(points).simplices] (Qhull), a list of index triples;
    - [rank : side -> list nat] stands for the order in which Python's stable [sorted(..., key=
      alignment)] puts the twelve triangles for the direction of that side (ascending alignment);
      sorting a sub-collection by the same key gives the sub-sequence of that order.  The real
      valued alignment itself ([Triangle.normal], [Triangle.orient], [_get_normals]) is modelled in
      the second half of this file and tied to [rank] by interval-checked goals. *)
From Coq Require Import List Bool Arith Reals.
From CB Require Import Base.Hex Base.Vec3 Model.C18_Finder.
Import ListNotations.

(** * Discrete part *)
Open Scope nat_scope.

Definition tri := list nat.

Definition memb (x : nat) (l : list nat) : bool := existsb (Nat.eqb x) l.

(** [Quadrangle.get_common_points(list_1, list_2)]: points of list_1 that are also in list_2 *)
Definition common_points (l1 l2 : list nat) : list nat := filter (fun p => memb p l2) l1.

(** [Quadrangle.get_unique_points(list_1, list_2)] *)
Definition unique_points (l1 l2 : list nat) : list nat :=
  let c := common_points l1 l2 in filter (fun p => negb (memb p c)) (l1 ++ l2).

(** [Quadrangle.__init__]: [None] = DegenerateGeometryError *)
Definition quadrangle (ts : list tri) : option (list nat) :=
  match ts with
  | [t0; t1] =>
      let c := common_points t0 t1 in
      let u := unique_points t0 t1 in
      if (length c =? 2) && (length u =? 2) then Some (u ++ c) else None
  | _ => None
  end.

(** [Quadrangle.get_common_point(self, quad_1, quad_2)]; [None] = an exception
    (DegenerateGeometryError for more than one, IndexError for none) *)
Definition get_common_point (q q1 q2 : list nat) : option nat :=
  match common_points (common_points q q1) q2 with
  | [x] => Some x
  | _ => None
  end.

(** the last two elements of a list ([sorted(...)[-2:]]) *)
Fixpoint last_two (l : list nat) : list nat :=
  match l with
  | [] => []
  | [a] => [a]
  | [a; b] => [a; b]
  | _ :: r => last_two r
  end.

(** [_get_aligned(list(remaining_triangles), normal)] with the order given by the oracle *)
Definition get_aligned (remaining : list nat) (rank_d : list nat) : list nat :=
  last_two (filter (fun t => memb t remaining) rank_d).

(** order of the keys of the dict returned by [_get_normals] *)
Definition normals_order : list side := [Front; Back; Top; Bottom; Left; Right].

(** the loop [for key, normal in normals.items()]: returns the quads as an association list *)
Fixpoint group_loop (hull : list tri) (rank : side -> list nat) (keys : list side) (remaining : list nat)
  : option (list (side * list nat)) :=
  match keys with
  | [] => Some []
  | k :: ks =>
      let al := get_aligned remaining (rank k) in
      match quadrangle (map (fun t => nth t hull []) al) with
      | None => None
      | Some q =>
          match group_loop hull rank ks (filter (fun t => negb (memb t al)) remaining) with
          | None => None
          | Some r => Some ((k, q) :: r)
          end
      end
  end.

Definition quad_of (qs : list (side * list nat)) (s : side) : list nat :=
  match find (fun kq => side_eqb (fst kq) s) qs with
  | Some kq => snd kq
  | None => []
  end.

(** the literal list [sorted_points] of [reorient]: corner k = quads[a].get_common_point(quads[b], quads[c]) *)
Definition corner_sides : list (side * side * side) :=
  [ (Bottom, Front, Left); (Bottom, Front, Right); (Bottom, Back, Right); (Bottom, Back, Left);
    (Top, Front, Left); (Top, Front, Right); (Top, Back, Right); (Top, Back, Left) ].

Fixpoint sequence {A} (l : list (option A)) : option (list A) :=
  match l with
  | [] => Some []
  | None :: _ => None
  | Some x :: r => match sequence r with Some r' => Some (x :: r') | None => None end
  end.

(** the new numbering from the six quads: new corner k is old point (nth k result) *)
Definition assemble (Q : side -> list nat) : option (list nat) :=
  sequence (map (fun abc => let '(a, b, c) := abc in get_common_point (Q a) (Q b) (Q c)) corner_sides).

(** [_make_triangles]: not 12 simplices = DegenerateGeometryError *)
Definition reorient (hull : list tri) (rank : side -> list nat) : option (list nat) :=
  if negb (length hull =? 12) then None
  else
    match group_loop hull rank normals_order (seq 0 12) with
    | None => None
    | Some qs => assemble (quad_of qs)
    end.

(** a rank oracle given as six lists in [normals_order] *)
Definition rank_of (l : list (list nat)) (s : side) : list nat :=
  match s with
  | Front => nth 0 l [] | Back => nth 1 l [] | Top => nth 2 l []
  | Bottom => nth 3 l [] | Left => nth 4 l [] | Right => nth 5 l []
  end.

Definition opt_list_eqb (a b : option (list nat)) : bool :=
  match a, b with
  | None, None => true
  | Some x, Some y => (length x =? length y) && forallb (fun ab => fst ab =? snd ab) (combine x y)
  | _, _ => false
  end.

(** * Real-valued part: the alignment key *)
Open Scope R_scope.

(** [Triangle.normal] *)
Definition tri_normal (p0 p1 p2 : vec) : vec := unit_vector (cross (vsub p1 p0) (vsub p2 p0)).

(** [Triangle.center] = np.average(points, axis=0) *)
Definition tri_center (p0 p1 p2 : vec) : vec := vscale (/ 3) (vadd (vadd p0 p1) p2).

(** [Triangle.orient(hull_center)] followed by [.normal]: the triangle is flipped (its point list
    reversed) when its normal points towards the hull centre *)
Definition oriented_normal (hc p0 p1 p2 : vec) : vec :=
  if Rltb (dot (vsub (tri_center p0 p1 p2) hc) (tri_normal p0 p1 p2)) 0
  then tri_normal p2 p1 p0
  else tri_normal p0 p1 p2.

(** [np.average(points, axis=0)] of the eight points *)
Definition center8 (ps : list vec) : vec := vscale (/ 8) (vsum ps).

(** [_get_normals(center)] *)
Definition v_observer (observer center : vec) : vec := unit_vector (vsub observer center).
Definition v_ceiling (observer ceiling center : vec) : vec :=
  let vo := v_observer observer center in
  let vc := unit_vector (vsub ceiling center) in
  unit_vector (vsub vc (vscale (dot vc vo) vo)).
Definition v_left (observer ceiling center : vec) : vec :=
  unit_vector (cross (v_observer observer center) (v_ceiling observer ceiling center)).

Definition frame_normal (observer ceiling center : vec) (s : side) : vec :=
  match s with
  | Front => v_observer observer center
  | Back => vopp (v_observer observer center)
  | Top => v_ceiling observer ceiling center
  | Bottom => vopp (v_ceiling observer ceiling center)
  | Left => v_left observer ceiling center
  | Right => vopp (v_left observer ceiling center)
  end.

(** the sort key of [_get_aligned] for the triangle [p0 p1 p2] and the direction of side [s] *)
Definition alignment (observer ceiling : vec) (ps : list vec) (s : side) (p0 p1 p2 : vec) : R :=
  dot (oriented_normal (center8 ps) p0 p1 p2) (frame_normal observer ceiling (center8 ps) s).
