(** C12 - life cycle of a Mesh: add / delete / assemble / move vertices / backport / clear /
    modify_patch / set_default_patch / merge_patches / write.

    Executable model transcribed from mesh.py, lists/{vertex,block,patch}_list.py, items/patch.py,
    items/side.py, construct/flat/face.py (Face.update); Mesh.grade (items/wires/{manager,axis,wire}.py,
    lists/block_list.py) is the propagation model of Model/Propagate.v (C01/C02); since fixes/C12-4.diff every
    grade first resets what the previous one left on the blocks ([C12_Regrade.grade]; the un-reset run of the
    code before that repair is [C12_Regrade.grade_no_reset], cfg [before_reset]).  No proofs in this file.

    Scope of the model (the correspondence is run inside this scope only):
    - every depot entity is a single Operation with straight edges, no projections, no cell zone
      (the 'edges' and 'faces' sections of the file stay empty; the harness checks that they do);
    - positions are integer triples (exact in binary64, so "closer than TOL" is equality);
    - chops fix the count only (c2c_expansion 1, so every total expansion is 1 and its reciprocal is 1):
      a chop is its count, a grading is the list of the counts of its sections (the length ratios of a
      multi-section chop travel with the counts; the harness checks that they do).  An axis may carry
      several chops or none: an axis without chops takes its gradings from coincident wires and its chops
      from neighbour axes (WirePropagateManager, Axis.copy_grading), [b_wg] holds the section lists of
      the twelve wires of a block, [b_ax] the chops copied by its un-chopped axes.
      The wire corner pairs are those of Model/Propagate.v ([axis_pairs] of [tables] is only compared
      with them, Properties/C12.v).

    The tables of util/constants.py the code consults are parameters ([tables]); their current values
    are tabulated into Gen/C12/Tables.v on every run.  The five repairs delivered with this property
    are switches of [cfg], so that both the repaired and the original behaviour are transcribed:
    the theorems are about [fixed], the refutations about the original code. *)
From Coq Require Import List Bool Arith ZArith.
From CB Require Model.Propagate Model.C12_Regrade.
Import ListNotations.

Definition pos := (Z * Z * Z)%type.
Definition pos_eqb (p q : pos) : bool :=
  (fst (fst p) =? fst (fst q))%Z && (snd (fst p) =? snd (fst q))%Z && (snd p =? snd q)%Z.
Definition pos_add (p q : pos) : pos :=
  (fst (fst p) + fst (fst q), snd (fst p) + snd (fst q), snd p + snd q)%Z.
Definition dpos : pos := (0, 0, 0)%Z.

Record tables := {
  face_map : list (list nat);          (* FACE_MAP[orient] for orient in bottom, top, SIDES_MAP[0..3] *)
  axis_pairs : list (list (nat * nat)); (* AXIS_PAIRS *)
  default_kind : nat                   (* Patch(name).kind, as an index into the harness' kind pool *)
}.

Record cfg := { fx_grade : bool; fx_clear : bool; fx_backport : bool; fx_reset : bool; fx_rank : bool }.
Definition fixed : cfg :=
  {| fx_grade := true; fx_clear := true; fx_backport := true; fx_reset := true; fx_rank := true |}.
Definition original : cfg :=
  {| fx_grade := false; fx_clear := false; fx_backport := false; fx_reset := false; fx_rank := false |}.
(** the code with the other repairs but before fixes/C12-4.diff (grade() did not reset) *)
Definition before_reset : cfg :=
  {| fx_grade := true; fx_clear := true; fx_backport := true; fx_reset := false; fx_rank := true |}.
(** the code with the other repairs but before fixes/C12-5b.diff ('boundary' was written in dictionary order: the
    patches kept by clear precede the re-created ones) *)
Definition before_rank : cfg :=
  {| fx_grade := true; fx_clear := true; fx_backport := true; fx_reset := true; fx_rank := false |}.

(** ** user entities *)
Record op := {
  o_pts : list pos;                 (* bottom_face.points ++ top_face.points *)
  o_pat : list (option nat);        (* patch name on bottom, top, side 0..3 (Operation.patch_names order) *)
  o_chops : list (list nat)         (* per axis: counts of the chops *)
}.
Definition with_pts (o : op) (p : list pos) : op := {| o_pts := p; o_pat := o_pat o; o_chops := o_chops o |}.

(** ** created items *)
Record vtx := { v_pos : pos; v_key : list nat }.   (* v_key: DuplicatedEntry.patches (sorted slave patches) *)
Definition dvtx : vtx := {| v_pos := dpos; v_key := [] |}.
Record blk := {
  b_src : nat;                      (* the operation the block was made from (Mesh.assembled after the repair) *)
  b_verts : list nat;               (* Block.vertices as indexes *)
  b_chops : list (list nat);        (* the user's chops per axis (WireChopManager.chops; [] = no chop manager) *)
  b_wg : list (list nat);           (* section counts of the gradings of the 12 wires (axis-major); [] before a grade *)
  b_ax : list (list nat)            (* per axis without user chops: the chops its WirePropagateManager copied *)
}.
Record pat := {
  p_name : nat; p_kind : nat; p_set : list nat;
  p_mod : bool;                     (* name in PatchList.modified (exists after the repair only) *)
  p_sides : list (list nat)         (* Side.vertices as indexes *)
}.
Definition with_sides (p : pat) (l : list (list nat)) : pat :=
  {| p_name := p_name p; p_kind := p_kind p; p_set := p_set p; p_mod := p_mod p; p_sides := l |}.

Record st := {
  depot : list nat;                 (* Mesh.depot, as keys into [ops] *)
  ops : list (nat * op);            (* the user's Operation objects (mutated by backport only) *)
  deleted : list nat;               (* Mesh.deleted *)
  verts : list vtx;                 (* VertexList.vertices (= .duplicated, see Mesh._add_vertices) *)
  blocks : list blk;                (* BlockList.blocks *)
  patches : list pat;               (* PatchList.patches, insertion order *)
  prank : list nat;                 (* PatchList.rank: the names in the order of their first appearance (kept by clear) *)
  dflt : option (nat * nat);        (* PatchList.default *)
  merged : list (nat * nat)         (* PatchList.merged *)
}.

Definition init (store : list (nat * op)) : st :=
  {| depot := []; ops := store; deleted := []; verts := []; blocks := []; patches := []; prank := [];
     dflt := None; merged := [] |}.

Definition with_lists (s : st) (v : list vtx) (b : list blk) (p : list pat) : st :=
  {| depot := depot s; ops := ops s; deleted := deleted s; verts := v; blocks := b; patches := p;
     prank := prank s; dflt := dflt s; merged := merged s |}.
Definition with_ops (s : st) (o : list (nat * op)) : st :=
  {| depot := depot s; ops := o; deleted := deleted s; verts := verts s; blocks := blocks s; patches := patches s;
     prank := prank s; dflt := dflt s; merged := merged s |}.
Definition with_rank (s : st) (r : list nat) : st :=
  {| depot := depot s; ops := ops s; deleted := deleted s; verts := verts s; blocks := blocks s; patches := patches s;
     prank := r; dflt := dflt s; merged := merged s |}.
Definition with_user (s : st) (d : list nat) (x : list nat) (df : option (nat * nat)) (mg : list (nat * nat)) : st :=
  {| depot := d; ops := ops s; deleted := x; verts := verts s; blocks := blocks s; patches := patches s;
     prank := prank s; dflt := df; merged := mg |}.

Definition mem (n : nat) (l : list nat) : bool := existsb (Nat.eqb n) l.
Fixpoint get_op (store : list (nat * op)) (k : nat) : option op :=
  match store with
  | [] => None
  | (k', o) :: r => if k' =? k then Some o else get_op r k
  end.
Fixpoint set_pts (store : list (nat * op)) (k : nat) (p : list pos) : list (nat * op) :=
  match store with
  | [] => []
  | (k', o) :: r => (k', if k' =? k then with_pts o p else o) :: set_pts r k p
  end.

(** the operations assemble() visits: depot order, deleted ones skipped *)
Definition live (s : st) : list nat := filter (fun k => negb (mem k (deleted s))) (depot s).
Definition live_ops (s : st) : list (nat * op) :=
  flat_map (fun k => match get_op (ops s) k with Some o => [(k, o)] | None => [] end) (live s).

(** ** VertexList.add with a list of slave patches (Mesh._add_vertices always passes a list) *)
Fixpoint insert_sorted (n : nat) (l : list nat) : list nat :=
  match l with
  | [] => [n]
  | m :: r => if n <? m then n :: l else if n =? m then l else m :: insert_sorted n r
  end.
Definition sort_set (l : list nat) : list nat := fold_right insert_sorted [] l.
Fixpoint list_eqb (l m : list nat) : bool :=
  match l, m with
  | [], [] => true
  | x :: l', y :: m' => (x =? y) && list_eqb l' m'
  | _, _ => false
  end.

Fixpoint find_vertex (vs : list vtx) (p : pos) (key : list nat) : option nat :=
  match vs with
  | [] => None
  | v :: r => if pos_eqb (v_pos v) p && list_eqb (v_key v) key then Some 0
              else match find_vertex r p key with Some i => Some (S i) | None => None end
  end.
Definition add_vertex (vs : list vtx) (p : pos) (key : list nat) : list vtx * nat :=
  match find_vertex vs p key with
  | Some i => (vs, i)
  | None => (vs ++ [{| v_pos := p; v_key := key |}], length vs)
  end.
Fixpoint add_many (vs : list vtx) (reqs : list (pos * list nat)) : list vtx * list nat :=
  match reqs with
  | [] => (vs, [])
  | (p, k) :: r =>
      let '(vs1, i) := add_vertex vs p k in
      let '(vs2, l) := add_many vs1 r in (vs2, i :: l)
  end.

(** Operation.get_patches_at_corner, intersected with PatchList.slave_patches, sorted *)
Definition somes (l : list (option nat)) : list nat :=
  flat_map (fun x => match x with Some n => [n] | None => [] end) l.
Definition corner_names (o : op) (c : nat) : list (option nat) :=
  [ nth (if c <? 4 then 0 else 1) (o_pat o) None;
    nth (2 + c mod 4) (o_pat o) None;
    nth (2 + (c mod 4 + 3) mod 4) (o_pat o) None ].
Definition corner_key (slaves : list nat) (o : op) (c : nat) : list nat :=
  sort_set (filter (fun n => mem n slaves) (somes (corner_names o c))).
Definition corners : list nat := [0; 1; 2; 3; 4; 5; 6; 7].
Definition pts8 (o : op) : list pos := map (fun c => nth c (o_pts o) dpos) corners.
Definition reqs (slaves : list nat) (o : op) : list (pos * list nat) :=
  map (fun c => (nth c (o_pts o) dpos, corner_key slaves o c)) corners.

(** ** PatchList.get / add_side, Patch.add_side (a side equal as a vertex set is skipped) *)
Definition same_set (l m : list nat) : bool := forallb (fun x => mem x m) l && forallb (fun x => mem x l) m.
Definition new_patch (tb : tables) (n : nat) : pat :=
  {| p_name := n; p_kind := default_kind tb; p_set := []; p_mod := false; p_sides := [] |}.
Definition push_side (p : pat) (q : list nat) : pat :=
  if existsb (same_set q) (p_sides p) then p else with_sides p (p_sides p ++ [q]).
Fixpoint add_side (tb : tables) (ps : list pat) (n : nat) (q : list nat) : list pat :=
  match ps with
  | [] => [push_side (new_patch tb n) q]
  | p :: r => if p_name p =? n then push_side p q :: r else p :: add_side tb r n q
  end.
Definition orients : list nat := [0; 1; 2; 3; 4; 5].
Definition add_op_patches (tb : tables) (ps : list pat) (o : op) (idx : list nat) : list pat :=
  fold_left (fun ps j =>
    match nth j (o_pat o) None with
    | Some n => add_side tb ps n (map (fun c => nth c idx 0) (nth j (face_map tb) []))
    | None => ps
    end) orients ps.

(** PatchList.rank: a name gets the next rank when its patch is created (PatchList.get) and it has none yet.  During an
    assembly the patches that exist at the start keep existing, so a patch is created exactly for the names that are
    not among them (a second creation of the same name meets a ranked name: rank_add does nothing) *)
Definition pfind (ps : list pat) (n : nat) : option pat := find (fun p => p_name p =? n) ps.
Definition has_patch (ps : list pat) (n : nat) : bool := existsb (fun p => p_name p =? n) ps.
Definition rank_add (r : list nat) (n : nat) : list nat := if mem n r then r else r ++ [n].
Definition op_names (o : op) : list nat := somes (map (fun j => nth j (o_pat o) None) orients).
Definition asm_rank (ps0 : list pat) (l : list (nat * op)) (r : list nat) : list nat :=
  fold_left (fun r n => if has_patch ps0 n then r else rank_add r n) (flat_map (fun ko => op_names (snd ko)) l) r.

(** ** Mesh.assemble: one operation, then all of them *)
Definition lists := (list vtx * list blk * list pat)%type.
Definition asm_op (tb : tables) (slaves : list nat) (L : lists) (ko : nat * op) : lists :=
  let '(V, B, P) := L in
  let '(V', idx) := add_many V (reqs slaves (snd ko)) in
  (V', B ++ [{| b_src := fst ko; b_verts := idx; b_chops := o_chops (snd ko); b_wg := []; b_ax := [] |}],
   add_op_patches tb P (snd ko) idx).
Definition slaves (s : st) : list nat := map snd (merged s).
Definition asm_all (tb : tables) (sl : list nat) (l : list (nat * op)) (L : lists) : lists :=
  fold_left (asm_op tb sl) l L.
Definition assemble (tb : tables) (s : st) : st :=
  let '(V, B, P) := asm_all tb (slaves s) (live_ops s) (verts s, blocks s, patches s) in
  with_rank (with_lists s V B P) (asm_rank (patches s) (live_ops s) (prank s)).

Definition is_assembled (s : st) : bool := negb (length (verts s) =? 0).

(** ** Mesh.clear *)
Definition clear_patches (c : cfg) (ps : list pat) : list pat :=
  if fx_clear c then map (fun p => with_sides p []) (filter p_mod ps) else [].
Definition clear (c : cfg) (s : st) : st := with_lists s [] [] (clear_patches c (patches s)).

(** ** PatchList.modify / set_default / merge *)
Fixpoint modify (tb : tables) (ps : list pat) (n kind : nat) (settings : option (list nat)) : list pat :=
  match ps with
  | [] => [{| p_name := n; p_kind := kind; p_set := match settings with Some x => x | None => [] end;
              p_mod := true; p_sides := [] |}]
  | p :: r =>
      if p_name p =? n
      then {| p_name := n; p_kind := kind; p_set := match settings with Some x => x | None => p_set p end;
              p_mod := true; p_sides := p_sides p |} :: r
      else p :: modify tb r n kind settings
  end.

(** ** Mesh.grade: Model/C12_Regrade.v on the block list, from the gradings the blocks hold *)
Definition total (l : list nat) : nat := fold_right Nat.add 0 l.
Definition axes : list nat := [0; 1; 2].
Definition pblk (b : blk) : Propagate.blk := {| Propagate.verts := b_verts b; Propagate.uchops := b_chops b |}.
Definition gstate (B : list blk) : Propagate.st :=
  C12_Regrade.untab (map pblk B) (map b_wg B) (map b_ax B).
Fixpoint imap {A B} (f : nat -> A -> B) (i : nat) (l : list A) : list B :=
  match l with
  | [] => []
  | a :: r => f i a :: imap f (S i) r
  end.
Definition store_gr (p : Propagate.st) (B : list blk) : list blk :=
  imap (fun i b => {| b_src := b_src b; b_verts := b_verts b; b_chops := b_chops b;
                      b_wg := C12_Regrade.tab_g p i; b_ax := C12_Regrade.tab_a (map pblk B) p i |}) 0 B.

(** iteration order of Wire.coincident_list / Axis.neighbour_list as a function of the block list;
    the code's is the insertion order of BlockList.update_neighbours *)
Definition oracle : Type :=
  list Propagate.blk -> (Propagate.wire -> list Propagate.wire) * (Propagate.axis -> list Propagate.axis).
Definition ins_oracle : oracle := fun bs => (Propagate.o_coin_ins bs, Propagate.o_nbrs_ins bs).

(** Axis.count, WireManagerBase.is_simple, Block.format_grading *)
Definition blk_counts (b : blk) : list nat :=
  map (fun a => match nth a (b_chops b) [] with
                | [] => total (nth (4 * a) (b_wg b) [])
                | c => total c
                end) axes.

(** ** the written file, parsed *)
Record file := {
  f_verts : list pos;
  f_blocks : list (list nat * list nat * list (list nat));   (* hex indexes, counts, section counts: 3 lists (simpleGrading) or 12 (edgeGrading) *)
  f_patches : list (nat * nat * list nat * list (list nat)); (* name, type, settings, faces *)
  f_default : option (nat * nat);
  f_merged : list (nat * nat)
}.
Definition blk_simple (b : blk) : bool :=
  forallb (fun a => forallb (fun k => list_eqb (nth (4 * a + k) (b_wg b) []) (nth (4 * a) (b_wg b) [])) [1; 2; 3]) axes.
(** simpleGrading: wire 0 of each axis; edgeGrading: all twelve wires *)
Definition blk_printed (b : blk) : list (list nat) :=
  if blk_simple b then map (fun a => nth (4 * a) (b_wg b) []) axes
  else map (fun i => nth i (b_wg b) []) (seq 0 12).
(** PatchList.description: by rank since fixes/C12-5b.diff, in dictionary order before *)
Definition by_rank (r : list nat) (ps : list pat) : list pat :=
  flat_map (fun n => match pfind ps n with Some p => [p] | None => [] end) r.
Definition render (c : cfg) (s : st) : file :=
  {| f_verts := map v_pos (verts s);
     f_blocks := map (fun b => (b_verts b, blk_counts b, blk_printed b)) (blocks s);
     f_patches := map (fun p => (p_name p, p_kind p, p_set p, p_sides p))
                      (if fx_rank c then by_rank (prank s) (patches s) else patches s);
     f_default := dflt s;
     f_merged := merged s |}.

(** ** calls and their outcome *)
Inductive call :=
| Add (k : nat) | Delete (k : nat) | Assemble | Move (i : nat) (d : pos) | Backport | Clear
| ModifyPatch (n kind : nat) (settings : option (list nat)) | SetDefault (n kind : nat)
| Merge (master slave : nat) | Write.

Inductive event := EFile (f : file) | EPoints (l : list (list pos)).
Inductive error := E_runtime | E_undefined | E_inconsistent | E_index | E_model.
Inductive outcome := Ok (s : st) (e : list event) | Err (e : error).

Definition move_vertex (vs : list vtx) (i : nat) (d : pos) : list vtx :=
  map (fun jv => if fst jv =? i then {| v_pos := pos_add (v_pos (snd jv)) d; v_key := v_key (snd jv) |} else snd jv)
      (combine (seq 0 (length vs)) vs).

Definition geo (V : list vtx) (idx : list nat) : list pos := map (fun i => v_pos (nth i V dvtx)) idx.

(** Mesh.backport: Face.update of bottom and top face of the operation of every block *)
Definition backport_ops (V : list vtx) (bs : list blk) (store : list (nat * op)) : list (nat * op) :=
  fold_left (fun st b => set_pts st (b_src b) (geo V (b_verts b))) bs store.
(** the original code took operations[i] of the flattened depot for block i *)
Fixpoint backport_ops_orig (V : list vtx) (bs : list blk) (dep : list nat) (store : list (nat * op)) : option (list (nat * op)) :=
  match bs with
  | [] => Some store
  | b :: r =>
      match dep with
      | [] => None
      | k :: dep' => backport_ops_orig V r dep' (set_pts store k (geo V (b_verts b)))
      end
  end.

(** BlockList.grade_blocks resets every wire manager first (fixes/C12-4.diff) *)
Definition grade_cfg (c : cfg) (bs : list Propagate.blk) (oc : Propagate.wire -> list Propagate.wire)
  (on : Propagate.axis -> list Propagate.axis) (s : Propagate.st) : C12_Regrade.gres :=
  if fx_reset c then C12_Regrade.grade bs oc on s else C12_Regrade.grade_no_reset bs oc on (fx_grade c) s.

(** [E_model]: the propagation loop ran out of fuel or the oracle is not an ordering of the coincident
    wires / neighbour axes; neither happens with [ins_oracle] (PropagateTerm.run_terminates,
    PropagateFinal.insertion_oracle_ok) *)
Definition write_with (orc : oracle) (c : cfg) (tb : tables) (s : st) : outcome :=
  let s1 := if is_assembled s then s else assemble tb s in
  if negb (is_assembled s1) then Err E_runtime else
  let bs := map pblk (blocks s1) in
  match grade_cfg c bs (fst (orc bs)) (snd (orc bs)) (gstate (blocks s1)) with
  | C12_Regrade.GOk p =>
      let s2 := with_lists s1 (verts s1) (store_gr p (blocks s1)) (patches s1) in Ok s2 [EFile (render c s2)]
  | C12_Regrade.GUndefined => Err E_undefined
  | C12_Regrade.GInconsistent => Err E_inconsistent
  | _ => Err E_model
  end.
Definition write : cfg -> tables -> st -> outcome := write_with ins_oracle.

Definition backport (c : cfg) (tb : tables) (s : st) : outcome :=
  if negb (is_assembled s) then Err E_runtime else
  match (if fx_backport c then Some (backport_ops (verts s) (blocks s) (ops s))
         else backport_ops_orig (verts s) (blocks s) (depot s) (ops s)) with
  | None => Err E_index
  | Some store =>
      let s1 := assemble tb (clear c (with_ops s store)) in
      Ok s1 [EPoints (map (fun ko => o_pts (snd ko)) store)]
  end.

Definition step (c : cfg) (tb : tables) (s : st) (x : call) : outcome :=
  match x with
  | Add k => Ok (with_user s (depot s ++ [k]) (deleted s) (dflt s) (merged s)) []
  | Delete k => Ok (with_user s (depot s) (k :: deleted s) (dflt s) (merged s)) []
  | Assemble => Ok (assemble tb s) []
  | Move i d => Ok (with_lists s (move_vertex (verts s) i d) (blocks s) (patches s)) []
  | Backport => backport c tb s
  | Clear => Ok (clear c s) []
  | ModifyPatch n k set =>
      Ok (with_rank (with_lists s (verts s) (blocks s) (modify tb (patches s) n k set))
                    (if has_patch (patches s) n then prank s else rank_add (prank s) n)) []
  | SetDefault n k => Ok (with_user s (depot s) (deleted s) (Some (n, k)) (merged s)) []
  | Merge m sl => Ok (with_user s (depot s) (deleted s) (dflt s) (merged s ++ [(m, sl)])) []
  | Write => write c tb s
  end.

(** a history: the events up to the first failing call, and that failure *)
Fixpoint run (c : cfg) (tb : tables) (s : st) (h : list call) : list event * option error :=
  match h with
  | [] => ([], None)
  | x :: r =>
      match step c tb s x with
      | Ok s' ev => let '(evs, e) := run c tb s' r in (ev ++ evs, e)
      | Err e => ([], Some e)
      end
  end.
Fixpoint steps (c : cfg) (tb : tables) (s : st) (h : list call) : option st :=
  match h with
  | [] => Some s
  | x :: r => match step c tb s x with Ok s' _ => steps c tb s' r | Err _ => None end
  end.

(** ** comparison with the parsed output of the implementation ('boundary' in the order written) *)
Definition lists_eqb (l m : list (list nat)) : bool :=
  (length l =? length m) && forallb (fun p => list_eqb (fst p) (snd p)) (combine l m).
Definition pos_list_eqb (l m : list pos) : bool :=
  (length l =? length m) && forallb (fun p => pos_eqb (fst p) (snd p)) (combine l m).
Definition pair_eqb (p q : nat * nat) : bool := (fst p =? fst q) && (snd p =? snd q).
Definition opt_pair_eqb (p q : option (nat * nat)) : bool :=
  match p, q with Some a, Some b => pair_eqb a b | None, None => true | _, _ => false end.
Definition patch_eqb (a b : nat * nat * list nat * list (list nat)) : bool :=
  let '(n1, k1, s1, f1) := a in let '(n2, k2, s2, f2) := b in
  (n1 =? n2) && (k1 =? k2) && list_eqb s1 s2 && lists_eqb f1 f2.
Definition block_eqb (a b : list nat * list nat * list (list nat)) : bool :=
  let '(h1, c1, g1) := a in let '(h2, c2, g2) := b in list_eqb h1 h2 && list_eqb c1 c2 && lists_eqb g1 g2.
Definition file_eqb (a b : file) : bool :=
  pos_list_eqb (f_verts a) (f_verts b)
  && (length (f_blocks a) =? length (f_blocks b))
  && forallb (fun p => block_eqb (fst p) (snd p)) (combine (f_blocks a) (f_blocks b))
  && (length (f_patches a) =? length (f_patches b))
  && forallb (fun p => patch_eqb (fst p) (snd p)) (combine (f_patches a) (f_patches b))
  && opt_pair_eqb (f_default a) (f_default b)
  && (length (f_merged a) =? length (f_merged b))
  && forallb (fun p => pair_eqb (fst p) (snd p)) (combine (f_merged a) (f_merged b)).
Definition event_eqb (a b : event) : bool :=
  match a, b with
  | EFile f, EFile g => file_eqb f g
  | EPoints l, EPoints m => (length l =? length m) && forallb (fun p => pos_list_eqb (fst p) (snd p)) (combine l m)
  | _, _ => false
  end.
Definition error_eqb (a b : option error) : bool :=
  match a, b with
  | None, None => true
  | Some E_runtime, Some E_runtime | Some E_undefined, Some E_undefined
  | Some E_inconsistent, Some E_inconsistent | Some E_index, Some E_index | Some E_model, Some E_model => true
  | _, _ => false
  end.
Definition result_eqb (a b : list event * option error) : bool :=
  (length (fst a) =? length (fst b)) && forallb (fun p => event_eqb (fst p) (snd p)) (combine (fst a) (fst b))
  && error_eqb (snd a) (snd b).
