(** C09 - where a sphere shape finds the centre (and the radius point) of the searchableSphere it is projected to
    (executable model, no proofs here).

    Abstracted from /repo/src/classy_blocks (tree with fix 77e7025 "a sphere shape keeps the Point objects at its
    centre and on its radius"):
      construct/point.py                  Point objects are transformed IN PLACE        -> a heap cell, [upd]
      base/element.py                     ElementBase.translate/rotate/scale/mirror delegate to every part, one
                                          call per occurrence of a Point object          -> [apply_refs] (a fold)
      construct/operations/operation.py   Operation.parts (both faces), Operation.invert (bottom <-> top),
                                          Operation.mirror = super().mirror(..); self.invert()
                                                                                         -> [op_apply] [op_invert] [op_mirror]
      construct/shape.py                  Shape.parts = operations                       -> [shape_apply] [shape_mirror]
      construct/shapes/sphere.py          EighthSphere.center_point
                                            old:  self.lofts[0].bottom_face.points[0].position   -> [center_by_position]
                                            new:  self._center.position  with  self._center = lofts[0].bottom_face.points[0]
                                                  taken once, at construction               -> [keep_center] [center_by_reference]
      copy.deepcopy (ElementBase.copy)    fresh Point objects, same internal identity structure, attributes
                                          (self._center) remapped with it                -> [shape_copy] [copy_ref]

    A point is a value of an arbitrary type [P]; a transformation is an arbitrary leaf map [f : P -> P]
    (Point.translate/rotate/scale/mirror with fixed arguments).  No real numbers are involved. *)
From Coq Require Import List Bool Arith ZArith.
Import ListNotations.

(** * 1. heap of Point objects, references *)
Definition heap (P : Type) : Type := list P.

(** one in-place call of a leaf method on the Point object behind reference [r] *)
Fixpoint upd {P : Type} (f : P -> P) (r : nat) (h : heap P) : heap P :=
  match h, r with
  | [], _ => []
  | x :: t, O => f x :: t
  | x :: t, S r' => x :: upd f r' t
  end.

(** delegation to a list of parts: one call per occurrence (an object reachable twice is moved twice) *)
Definition apply_refs {P : Type} (f : P -> P) (rs : list nat) (h : heap P) : heap P :=
  fold_left (fun h' r => upd f r h') rs h.

(** * 2. operation = two faces of (four) references *)
Record oper : Type := mkOper { bottom_face : list nat; top_face : list nat }.

Definition op_refs (o : oper) : list nat := bottom_face o ++ top_face o.
(** Operation.invert: bottom_face, top_face = top_face, bottom_face *)
Definition op_invert (o : oper) : oper := mkOper (top_face o) (bottom_face o).
(** ElementBase.<transformation> on an operation: every part once *)
Definition op_apply {P : Type} (f : P -> P) (o : oper) (h : heap P) : heap P := apply_refs f (op_refs o) h.
(** Operation.mirror: mirror the parts, then invert *)
Definition op_mirror {P : Type} (f : P -> P) (o : oper) (h : heap P) : oper * heap P := (op_invert o, op_apply f o h).

(** * 3. shape = list of operations *)
Definition shape : Type := list oper.
Definition shape_refs (sh : shape) : list nat := flat_map op_refs sh.

Definition shape_apply {P : Type} (f : P -> P) (sh : shape) (h : heap P) : heap P :=
  fold_left (fun h' o => op_apply f o h') sh h.
(** Shape.mirror: operation.mirror(...) for every operation in turn (the heap is threaded through) *)
Fixpoint shape_mirror {P : Type} (f : P -> P) (sh : shape) (h : heap P) : shape * heap P :=
  match sh with
  | [] => ([], h)
  | o :: t =>
      let (o', h1) := op_mirror f o h in
      let (t', h2) := shape_mirror f t h1 in
      (o' :: t', h2)
  end.

(** * 4. sequences of transformations *)
Inductive step (P : Type) : Type :=
| TApply (f : P -> P)      (* translate / rotate / scale *)
| TMirror (f : P -> P).    (* mirror: operations are inverted too *)
Arguments TApply {P} f.
Arguments TMirror {P} f.

Definition step_map {P : Type} (t : step P) : P -> P := match t with TApply f => f | TMirror f => f end.
Definition is_mirror {P : Type} (t : step P) : bool := match t with TApply _ => false | TMirror _ => true end.

Definition do_step {P : Type} (t : step P) (st : shape * heap P) : shape * heap P :=
  match t with
  | TApply f => (fst st, shape_apply f (fst st) (snd st))
  | TMirror f => shape_mirror f (fst st) (snd st)
  end.
Fixpoint run {P : Type} (ts : list (step P)) (st : shape * heap P) : shape * heap P :=
  match ts with [] => st | t :: ts' => run ts' (do_step t st) end.

(** the composed leaf map (first step innermost) and the number of mirrors *)
Fixpoint compose {P : Type} (ts : list (step P)) (c : P) : P :=
  match ts with [] => c | t :: ts' => compose ts' (step_map t c) end.
Definition mirrors {P : Type} (ts : list (step P)) : nat := length (filter is_mirror ts).

(** * 5. the two ways of finding the centre *)
(** the reference at corner 0 of the bottom face of operation 0 *)
Definition corner0 (sh : shape) : option nat :=
  match sh with o :: _ => hd_error (bottom_face o) | [] => None end.
(** old code: looked up by position every time it is needed *)
Definition center_by_position {P : Type} (sh : shape) (h : heap P) : option P :=
  match corner0 sh with Some r => nth_error h r | None => None end.
(** repaired code: the reference is taken once (at construction) and kept *)
Definition keep_center (sh : shape) : option nat := corner0 sh.
Definition center_by_reference {P : Type} (r : nat) (h : heap P) : option P := nth_error h r.

(** * 6. well-formedness: the references of the shape are pairwise distinct *)
Definition memb (r : nat) (l : list nat) : bool := existsb (Nat.eqb r) l.
Fixpoint nodupb (l : list nat) : bool :=
  match l with [] => true | x :: t => negb (memb x t) && nodupb t end.
Definition wf (sh : shape) : bool := nodupb (shape_refs sh).
(** (used by the examples only) every face has four corners and every reference is a heap cell *)
Definition four_corners (sh : shape) : bool :=
  forallb (fun o => (length (bottom_face o) =? 4) && (length (top_face o) =? 4)) sh.
Definition in_heap {P : Type} (sh : shape) (h : heap P) : bool :=
  forallb (fun r => r <? length h) (shape_refs sh).

(** * 7. copy: fresh cells with the same reference structure; a remembered reference is remapped with it *)
Definition shift_oper (n : nat) (o : oper) : oper :=
  mkOper (map (Nat.add n) (bottom_face o)) (map (Nat.add n) (top_face o)).
Definition copy_ref {P : Type} (h : heap P) (r : nat) : nat := length h + r.
Definition shape_copy {P : Type} (sh : shape) (h : heap P) : shape * heap P :=
  (map (shift_oper (length h)) sh, h ++ h).

(** * 8. a miniature of the eighth sphere over integer points: a core and a shell operation, sixteen
    Point objects; cell 0 is the centre, cell 9 the radius point; several corners lie at the same POSITION
    (core/shell interface) but are objects of their own, as in the library after fix C09-5 *)
Definition pt : Type := (Z * Z * Z)%type.
Definition mini_shape : shape :=
  [ mkOper [0; 1; 2; 3] [4; 5; 6; 7];          (* core *)
    mkOper [8; 9; 10; 11] [12; 13; 14; 15] ].  (* shell *)
Definition mini_heap : heap pt :=
  [ (0, 0, 0); (1, 0, 0); (1, 1, 0); (0, 1, 0);     (0, 0, 1); (1, 0, 1); (1, 1, 1); (0, 1, 1);
    (1, 0, 0); (2, 0, 0); (2, 2, 0); (1, 1, 0);     (1, 0, 1); (2, 0, 2); (2, 2, 2); (1, 1, 1) ]%Z.
(** reflection in the plane x = 1 and a translation *)
Definition mirror_x1 (p : pt) : pt := let '(x, y, z) := p in (2 - x, y, z)%Z.
Definition shift_y5 (p : pt) : pt := let '(x, y, z) := p in (x, y + 5, z)%Z.
