(** C06 - model of [Mesh.assemble] + [Mesh.write] as far as the written file is concerned.

    A mesh is the list of entities the user added (each a list of operations, with the user's
    addressing calls, plus the optional automatic geometry of the entity), the merged pairs, the
    default patch, patch modifications, geometries and settings.  [ast_of] computes the abstract file
    (Model/C06_Render.v).  Transcribed from mesh.py (assemble, _add_vertices, write, format_settings),
    lists/vertex_list.py (add, find_duplicated), lists/patch_list.py, lists/face_list.py,
    lists/geometry_list.py, lists/block_list.py, items/block.py (description, format_grading),
    items/patch.py, items/side.py, items/wires/manager.py (is_simple, format_single/all),
    grading/grading.py (description, __eq__).

    Not modelled (inputs observed on the live objects): the cell counts and the grading
    specifications of the wires (C01-C04), the edges section (C07).  The side-to-corner table
    FACE_MAP is an argument [fm]; its current value is tabulated into Gen/C06/Tables.v.
    No proofs in this file. *)
From Coq Require Import List Bool Arith ZArith QArith Qabs Qminmax Qround String.
From CB Require Import Base.Hex Model.C06_Render.
Import ListNotations.
Open Scope nat_scope.

Inductive ocall :=
| SetPatch (ss : list side) (name : string)
| ProjSide (s : side) (label : string) (points : bool)
| ProjCorner (c : nat) (labels : list string).

Record op := mkOp {
  o_pts : list pt;                               (* the 8 corners *)
  o_deleted : bool;
  o_calls : list ocall;
  o_zone : string;
  o_counts : list nat;                           (* observed: Axis.count of the block's 3 axes *)
  o_wires : list (nat * nat * list (Q * Q * Q))  (* observed: (corner 1, corner 2, Grading.specification) *)
}.

Record entity := mkEnt { e_ops : list op; e_geom : option (list ageom) }.

Definition modification := (string * string * option (list (list tok)))%type.

Record mesh := mkMesh {
  m_header : list entry;
  m_settings : list (string * option (list tok));   (* Mesh.settings in dict order; None = not written *)
  m_geometry : list (list ageom);                   (* add_geometry calls of the user *)
  m_modify_pre : list modification;                 (* modify_patch before assembly *)
  m_merged : list (string * string);
  m_default : option (string * string);
  m_depot : list entity;
  m_modify_post : list modification                 (* modify_patch after assembly *)
}.

(** ** one operation *)
Definition side_in (s : side) (ss : list side) : bool := existsb (side_eqb s) ss.

Definition patch_of (cs : list ocall) (s : side) : option string :=
  fold_left (fun acc c => match c with SetPatch ss n => if side_in s ss then Some n else acc | _ => acc end) cs None.

Definition pface_of (cs : list ocall) (s : side) : option string :=
  fold_left (fun acc c => match c with ProjSide t l _ => if side_eqb s t then Some l else acc | _ => acc end) cs None.

Definition corner_labels (cs : list ocall) (c : nat) : list string :=
  flat_map (fun k => match k with
                     | ProjSide s l true => if on_side s c then [l] else []
                     | ProjCorner c' ls => if c' =? c then ls else []
                     | _ => []
                     end) cs.

Definition str_in (x : string) (l : list string) : bool := existsb (String.eqb x) l.
Definition str_set_eqb (l m : list string) : bool :=
  forallb (fun x => str_in x m) l && forallb (fun x => str_in x l) m.
Definition str_add (l : list string) (x : string) : list string := if str_in x l then l else l ++ [x].

(** iteration orders of the writer *)
Definition patch_order : list side := [Bottom; Top; Front; Right; Back; Left].   (* Operation.patch_names *)
Definition face_order : list side := [Front; Right; Back; Left; Bottom; Top].    (* FaceList.add *)

(** names of the slave patches that meet at corner [c] *)
Definition corner_slaves (cs : list ocall) (slaves : list string) (c : nat) : list string :=
  fold_left (fun acc s => if on_side s c then
                            match patch_of cs s with
                            | Some n => if str_in n slaves then str_add acc n else acc
                            | None => acc
                            end
                          else acc) patch_order [].

(** ** vertex list *)
Record vtx := mkVtx { x_pos : pt; x_labels : list string; x_slaves : list string; x_key : Z * Z * Z }.

Definition sqd (p r : pt) : Q :=
  let '(a, b, c) := p in let '(d, e, f) := r in
  ((a - d) * (a - d) + (b - e) * (b - e) + (c - f) * (c - f))%Q.
Definition tol2 : Q := 1 # 100000000000000.     (* TOL^2, TOL = 1e-7 *)
(** [f.norm(position - dupe.point) < constants.TOL] *)
Definition near (p r : pt) : bool := negb (Qle_bool tol2 (sqd p r)).

(** Evaluation shortcut: every vertex carries the integer cell (side 2^-20) of its position; points
    closer than TOL lie in the same or in adjacent cells ([key_near_complete] in Proofs/C06_Mesh.v), so
    the exact rational test is evaluated for candidates only. *)
Definition key_scale : Q := 1048576 # 1.
Definition key_of (x : Q) : Z := Qfloor (x * key_scale).
Definition key_pt (p : pt) : Z * Z * Z := let '(a, b, c) := p in (key_of a, key_of b, key_of c).
Definition key1_near (a d : Z) : bool := (Z.abs (a - d) <=? 1)%Z.
Definition key_near (k l : Z * Z * Z) : bool :=
  let '(a, b, c) := k in let '(d, e, f) := l in
  if key1_near a d then if key1_near b e then key1_near c f else false else false.

Fixpoint find_vtx (vs : list vtx) (p : pt) (k : Z * Z * Z) (sl : list string) (i : nat) : option nat :=
  match vs with
  | [] => None
  | v :: r =>
      (* nested [if]s: evaluation is strict, [&&] would compute all three tests *)
      if (if key_near k (x_key v) then if near p (x_pos v) then str_set_eqb (x_slaves v) sl else false else false)
      then Some i
      else find_vtx r p k sl (S i)
  end.

Definition add_vtx (vs : list vtx) (p : pt) (labels sl : list string) : list vtx * nat :=
  let k := key_pt p in
  match find_vtx vs p k sl 0 with
  | Some i => (vs, i)
  | None => (vs ++ [mkVtx p labels sl k], List.length vs)
  end.

Definition zero_pt : pt := (0, 0, 0)%Q.

Definition add_corners (slaves : list string) (o : op) (vs : list vtx) : list vtx * list nat :=
  fold_left (fun acc c =>
               let '(vs, ids) := acc in
               let '(vs', i) := add_vtx vs (nth c (o_pts o) zero_pt) (corner_labels (o_calls o) c)
                                        (corner_slaves (o_calls o) slaves c) in
               (vs', ids ++ [i])) corners (vs, []).

(** ** gradings *)
(** blockMesh's numbering of the 12 edges of a hexahedron (edgeGrading order), directed *)
Definition of_edges : list (nat * nat) :=
  [(0, 1); (3, 2); (7, 6); (4, 5); (0, 3); (1, 2); (5, 6); (4, 7); (0, 4); (1, 5); (2, 6); (3, 7)].

Definition spec := list (Q * Q * Q).
Definition wire_spec (ws : list (nat * nat * spec)) (e : nat * nat) : spec :=
  match find (fun w => (fst (fst w) =? fst e) && (snd (fst w) =? snd e)) ws with
  | Some w => snd w
  | None => []
  end.

Definition rel_tol : Q := 1 # 10000000.
Definition isclose (a b : Q) : bool := Qle_bool (Qabs (a - b)) (rel_tol * Qmax (Qabs a) (Qabs b)).
Definition triple_close (s t : Q * Q * Q) : bool :=
  let '(a, b, c) := s in let '(d, e, f) := t in isclose a d && isclose b e && isclose c f.
Fixpoint spec_close (s t : spec) : bool :=
  match s, t with
  | [], [] => true
  | x :: s', y :: t' => triple_close x y && spec_close s' t'
  | _, _ => false
  end.

Definition axis_specs (ws : list (nat * nat * spec)) (a : nat) : list spec :=
  map (wire_spec ws) (firstn 4 (skipn (4 * a) of_edges)).
Definition axis_simple (ws : list (nat * nat * spec)) (a : nat) : bool :=
  match axis_specs ws a with
  | s0 :: r => forallb (spec_close s0) r
  | [] => true
  end.
Definition gspec_of (s : spec) : gspec :=
  match s with
  | [(_, _, e)] => GOne e
  | l => GMulti l
  end.
Definition grading_of (ws : list (nat * nat * spec)) : string * list gspec :=
  if forallb (axis_simple ws) [0; 1; 2]
  then ("simpleGrading"%string, map (fun a => gspec_of (hd [] (axis_specs ws a))) [0; 1; 2])
  else ("edgeGrading"%string, map (fun e => gspec_of (wire_spec ws e)) of_edges).

Definition zone_of (z : string) : option string := if String.eqb z "" then None else Some z.

(** ** patches and projected faces *)
Definition quad_same (a b : list nat) : bool := same_set a b.

Definition patch_add_side (p : apatch) (qd : list nat) : apatch :=
  if existsb (quad_same qd) (p_quads p) then p
  else mkPatch (p_name p) (p_kind p) (p_settings p) (p_quads p ++ [qd]).

Fixpoint patches_update (ps : list apatch) (n : string) (f : apatch -> apatch) : list apatch :=
  match ps with
  | [] => [f (mkPatch n "patch" [] [])]
  | p :: r => if String.eqb (p_name p) n then f p :: r else p :: patches_update r n f
  end.

Definition patch_modify (ps : list apatch) (m : modification) : list apatch :=
  let '(n, k, st) := m in
  patches_update ps n (fun p => mkPatch (p_name p) k (match st with Some s => s | None => p_settings p end) (p_quads p)).

Definition side_quad (fm : side -> list nat) (vids : list nat) (s : side) : list nat :=
  map (fun c => nth c vids 0) (fm s).

Definition add_patches (fm : side -> list nat) (o : op) (vids : list nat) (ps : list apatch) : list apatch :=
  fold_left (fun ps s => match patch_of (o_calls o) s with
                         | Some n => patches_update ps n (fun p => patch_add_side p (side_quad fm vids s))
                         | None => ps
                         end) patch_order ps.

Definition faces_add (fs : list (list nat * string)) (qd : list nat) (l : string) : list (list nat * string) :=
  if existsb (fun f => quad_same (fst f) qd) fs then fs else fs ++ [(qd, l)].

Definition add_faces (fm : side -> list nat) (o : op) (vids : list nat) (fs : list (list nat * string)) :=
  fold_left (fun fs s => match pface_of (o_calls o) s with
                         | Some l => faces_add fs (side_quad fm vids s) l
                         | None => fs
                         end) face_order fs.

(** ** geometry *)
Fixpoint geom_set (g : list ageom) (e : ageom) : list ageom :=
  match g with
  | [] => [e]
  | x :: r => if String.eqb (fst x) (fst e) then e :: r else x :: geom_set r e
  end.
Definition geom_merge (g new : list ageom) : list ageom := fold_left geom_set new g.

(** ** assembly *)
Record asm := mkAsm {
  a_verts : list vtx;
  a_blocks : list ablock;
  a_patches : list apatch;
  a_faces : list (list nat * string);
  a_geom : list ageom
}.

Definition add_op (fm : side -> list nat) (slaves : list string) (st : asm) (o : op) : asm :=
  if o_deleted o then st
  else
    let '(vs, vids) := add_corners slaves o (a_verts st) in
    let '(kw, gs) := grading_of (o_wires o) in
    mkAsm vs
          (a_blocks st ++ [mkBlock vids (zone_of (o_zone o)) (o_counts o) kw gs])
          (add_patches fm o vids (a_patches st))
          (add_faces fm o vids (a_faces st))
          (a_geom st).

Definition add_entity (fm : side -> list nat) (slaves : list string) (st : asm) (e : entity) : asm :=
  let st' := fold_left (add_op fm slaves) (e_ops e) st in
  match e_geom e with
  | Some g => mkAsm (a_verts st') (a_blocks st') (a_patches st') (a_faces st') (geom_merge (a_geom st') g)
  | None => st'
  end.

Definition assemble (fm : side -> list nat) (m : mesh) : asm :=
  let st0 := mkAsm [] [] (fold_left patch_modify (m_modify_pre m) []) []
                   (fold_left geom_merge (m_geometry m) []) in
  let st1 := fold_left (add_entity fm (map snd (m_merged m))) (m_depot m) st0 in
  mkAsm (a_verts st1) (a_blocks st1) (fold_left patch_modify (m_modify_post m) (a_patches st1))
        (a_faces st1) (a_geom st1).

Definition settings_of (l : list (string * option (list tok))) : list entry :=
  flat_map (fun kv => match snd kv with Some v => [(fst kv, v)] | None => [] end) l.

Definition ast_of (fm : side -> list nat) (m : mesh) : afile :=
  let st := assemble fm m in
  mkFile (m_header m) (settings_of (m_settings m)) (a_geom st)
         (map (fun v => mkVertex (x_pos v) (x_labels v)) (a_verts st))
         (a_blocks st) (a_faces st) (a_patches st) (m_default m) (m_merged m).

Definition render_mesh (fm : side -> list nat) (m : mesh) : list tok := render (ast_of fm m).

(** the debug VTK: points and hexahedra *)
Definition vtk_of (fm : side -> list nat) (m : mesh) : list pt * list (list nat) :=
  let st := assemble fm m in (map x_pos (a_verts st), map b_vids (a_blocks st)).

(** side lookup from a table *)
Definition fm_of_table (t : list (side * list nat)) (s : side) : list nat :=
  match find (fun x => side_eqb (fst x) s) t with Some x => snd x | None => [] end.

(** * Comparison of the model's file with the parsed file *)
Definition nat_list_eqb (l m : list nat) : bool := (List.length l =? List.length m) && forallb (fun p => fst p =? snd p) (combine l m).
Fixpoint list_eqb {A} (eqb : A -> A -> bool) (l m : list A) : bool :=
  match l, m with
  | [], [] => true
  | x :: l', y :: m' => eqb x y && list_eqb eqb l' m'
  | _, _ => false
  end.
Definition tok_eqb (a b : tok) : bool :=
  match a, b with
  | W s, W t => String.eqb s t
  | LP, LP | RP, RP | LB, LB | RB, RB | SC, SC => true
  | N x, N y => Qeq_bool x y
  | _, _ => false
  end.
Definition toks_eqb := list_eqb tok_eqb.
Definition entry_eqb (a b : entry) : bool := String.eqb (fst a) (fst b) && toks_eqb (snd a) (snd b).
Definition geom_eqb (a b : ageom) : bool := String.eqb (fst a) (fst b) && list_eqb toks_eqb (snd a) (snd b).

(** a coordinate printed with 8 decimals (correctly rounded) *)
Definition print_tol : Q := 5000001 # 1000000000000000.
Definition coord_close (a b : Q) : bool := Qle_bool (Qabs (a - b)) print_tol.
Definition pt_close (p r : pt) : bool :=
  let '(a, b, c) := p in let '(d, e, f) := r in coord_close a d && coord_close b e && coord_close c f.
Definition pt_eqb (p r : pt) : bool :=
  let '(a, b, c) := p in let '(d, e, f) := r in Qeq_bool a d && Qeq_bool b e && Qeq_bool c f.
Definition vertex_match (a b : avertex) : bool :=
  pt_close (v_pos a) (v_pos b) && list_eqb String.eqb (v_labels a) (v_labels b).
Definition triple_eqb (s t : Q * Q * Q) : bool :=
  let '(a, b, c) := s in let '(d, e, f) := t in Qeq_bool a d && Qeq_bool b e && Qeq_bool c f.
(** numbers written with repr(): the decimal literal denotes the double up to half an ulp *)
Definition repr_tol : Q := 1 # 1000000000000.
Definition num_close (a b : Q) : bool := Qle_bool (Qabs (a - b)) (repr_tol * Qmax (Qabs a) (Qabs b)).
Definition triple_num_close (s t : Q * Q * Q) : bool :=
  let '(a, b, c) := s in let '(d, e, f) := t in num_close a d && num_close b e && num_close c f.
Definition gspec_eqb (a b : gspec) : bool :=
  match a, b with
  | GOne x, GOne y => num_close x y
  | GMulti l, GMulti m => list_eqb triple_num_close l m
  | _, _ => false
  end.
Definition opt_str_eqb (a b : option string) : bool :=
  match a, b with Some x, Some y => String.eqb x y | None, None => true | _, _ => false end.
Definition block_eqb (a b : ablock) : bool :=
  nat_list_eqb (b_vids a) (b_vids b) && opt_str_eqb (b_zone a) (b_zone b) && nat_list_eqb (b_counts a) (b_counts b)
  && String.eqb (b_gkw a) (b_gkw b) && list_eqb gspec_eqb (b_gspecs a) (b_gspecs b).
Definition face_eqb (a b : list nat * string) : bool := nat_list_eqb (fst a) (fst b) && String.eqb (snd a) (snd b).
Definition patch_eqb (a b : apatch) : bool :=
  String.eqb (p_name a) (p_name b) && String.eqb (p_kind a) (p_kind b)
  && list_eqb toks_eqb (p_settings a) (p_settings b) && list_eqb nat_list_eqb (p_quads a) (p_quads b).
Definition pair_eqb (a b : string * string) : bool := String.eqb (fst a) (fst b) && String.eqb (snd a) (snd b).
Definition opt_pair_eqb (a b : option (string * string)) : bool :=
  match a, b with Some x, Some y => pair_eqb x y | None, None => true | _, _ => false end.

(** numbers of the sections in which the two files differ *)
Definition file_diff (a b : afile) : list nat :=
  (if list_eqb entry_eqb (f_header a) (f_header b) then [] else [1])
  ++ (if list_eqb entry_eqb (f_settings a) (f_settings b) then [] else [2])
  ++ (if list_eqb geom_eqb (f_geometry a) (f_geometry b) then [] else [3])
  ++ (if list_eqb vertex_match (f_vertices a) (f_vertices b) then [] else [4])
  ++ (if list_eqb block_eqb (f_blocks a) (f_blocks b) then [] else [5])
  ++ (if list_eqb face_eqb (f_faces a) (f_faces b) then [] else [6])
  ++ (if list_eqb patch_eqb (f_patches a) (f_patches b) then [] else [7])
  ++ (if opt_pair_eqb (f_default a) (f_default b) then [] else [8])
  ++ (if list_eqb pair_eqb (f_merged a) (f_merged b) then [] else [9]).

(** * Well-formedness of a file, stated against the reference hexahedron (independent of [fm]) *)
Definition four_lists : list (list nat) :=
  flat_map (fun a => flat_map (fun b => flat_map (fun c => map (fun d => [a; b; c; d]) corners) corners) corners) corners.
Definition all_cycles : list (list nat) :=
  Eval vm_compute in filter (fun qd => existsb (fun s => is_side_cycle s qd) sides) four_lists.

Definition quad_on_block (qd : list nat) (b : ablock) : bool :=
  existsb (fun cyc => nat_list_eqb (map (fun c => nth c (b_vids b) 0) cyc) qd) all_cycles.
Definition quad_ok (f : afile) (qd : list nat) : bool := existsb (quad_on_block qd) (f_blocks f).

Definition block_ok (nv : nat) (b : ablock) : bool :=
  (List.length (b_vids b) =? 8) && forallb (fun i => i <? nv) (b_vids b)
  && (List.length (b_counts b) =? 3) && forallb (fun c => 0 <? c) (b_counts b)
  && ((String.eqb (b_gkw b) "simpleGrading" && (List.length (b_gspecs b) =? 3))
      || (String.eqb (b_gkw b) "edgeGrading" && (List.length (b_gspecs b) =? 12))).

Definition indices_ok (f : afile) : bool :=
  let nv := List.length (f_vertices f) in
  forallb (fun b => forallb (fun i => i <? nv) (b_vids b)) (f_blocks f)
  && forallb (fun fc => forallb (fun i => i <? nv) (fst fc)) (f_faces f)
  && forallb (fun p => forallb (forallb (fun i => i <? nv)) (p_quads p)) (f_patches f).

Definition quads_ok (f : afile) : bool :=
  forallb (fun fc => quad_ok f (fst fc)) (f_faces f)
  && forallb (fun p => forallb (quad_ok f) (p_quads p)) (f_patches f).

Definition geoms_defined (f : afile) (req : list string) : bool :=
  forallb (fun l => str_in l (map fst (f_geometry f))) req.

(** numbers of the well-formedness conditions that fail: 21 block shape, 22 index, 23 quad, 24 geometry *)
Definition wf_diff (f : afile) (req : list string) : list nat :=
  (if forallb (block_ok (List.length (f_vertices f))) (f_blocks f) then [] else [21])
  ++ (if indices_ok f then [] else [22])
  ++ (if quads_ok f then [] else [23])
  ++ (if geoms_defined f req then [] else [24]).

Definition vtk_diff (model : list pt * list (list nat)) (file : list pt * list (list nat)) : list nat :=
  (if list_eqb pt_eqb (fst model) (fst file) then [] else [31])
  ++ (if list_eqb nat_list_eqb (snd model) (snd file) then [] else [32]).

(** one correspondence case: the mesh, the geometries its built-in shapes project to, the lexed file,
    the parsed VTK (if written).  Result: codes of everything that disagrees ([] = agreement). *)
Definition check_case (fm : side -> list nat) (m : mesh) (req : list string) (file : list tok)
           (vtk : option (list pt * list (list nat))) : list nat :=
  match parse file with
  | None => [0]
  | Some pf =>
      file_diff (ast_of fm m) pf ++ wf_diff pf req
      ++ match vtk with Some v => vtk_diff (vtk_of fm m) v | None => [] end
  end.
