(** Histories of face re-indexing / moving calls on one operation, with the side faces requested in
    between (C10: "sequences of such operations", "the faces obtained from an operation by side
    name have those corners").

    State: the eight point identities in corner order (bottom face slots 0..3, top face slots 0..3)
    and the eight face-edge identities (edge [i] of a face joins its slots [i] and [i+1 mod 4]).
    Moving points does not change identities, so a move is the identity on this state: what the
    correspondence checks is that the implementation, observed through the *current* positions,
    agrees - i.e. that it keeps no stale copy of an earlier state.  No proofs here. *)
From Coq Require Import List Bool Arith ZArith.
From CB Require Import Base.Hex.
Import ListNotations.

Inductive fcall :=
| FInvert (top : bool)                 (* Face.invert of the bottom/top face *)
| FShift (top : bool) (k : Z)          (* Face.shift(k) *)
| FReorient (top : bool) (j : nat)     (* Face.reorient(position next to the point now in slot j) *)
| FMove (top : bool)                   (* translate the face *)
| OpMove                               (* transform the whole operation *)
| OpInvert                             (* Operation.invert: swap bottom and top *)
| GetFace (s : side).                  (* observation: Operation.get_face(side) *)

Record fst8 := { bpts : list nat; tpts : list nat; beds : list nat; teds : list nat }.

Definition finit : fst8 := {| bpts := [0; 1; 2; 3]; tpts := [4; 5; 6; 7]; beds := [10; 11; 12; 13]; teds := [14; 15; 16; 17] |}.

Definition nth4 (l : list nat) (i : nat) : nat := nth (i mod 4) l 99.

(** Face.shift(k): new[i] = old[(i - k) mod 4] for points and edges alike *)
Definition shift_list (k : Z) (l : list nat) : list nat :=
  map (fun i => nth4 l (Z.to_nat ((Z.of_nat i - k) mod 4))) [0; 1; 2; 3].

(** Face.invert: points reversed; edges reversed and rotated by one so that each edge stays between
    its two points *)
Definition invert_pts (l : list nat) : list nat := rev l.
Definition invert_eds (l : list nat) : list nat := map (fun i => nth4 (rev l) (i + 1)) [0; 1; 2; 3].

(** Face.reorient towards the point in slot j = shift(-j) *)
Definition reorient_list (j : nat) (l : list nat) : list nat := shift_list (- Z.of_nat j) l.

Definition on_face (top : bool) (fp fe : list nat -> list nat) (s : fst8) : fst8 :=
  if top then {| bpts := bpts s; tpts := fp (tpts s); beds := beds s; teds := fe (teds s) |}
  else {| bpts := fp (bpts s); tpts := tpts s; beds := fe (beds s); teds := teds s |}.

Definition fstep (s : fst8) (c : fcall) : fst8 :=
  match c with
  | FInvert t => on_face t invert_pts invert_eds s
  | FShift t k => on_face t (shift_list k) (shift_list k) s
  | FReorient t j => on_face t (reorient_list j) (reorient_list j) s
  | FMove _ | OpMove | GetFace _ => s
  | OpInvert => {| bpts := tpts s; tpts := bpts s; beds := teds s; teds := beds s |}
  end.

(** the corner set returned by get_face: the identities now sitting at the side's corners *)
Definition face_obs (s : fst8) (sd : side) : list nat :=
  map (fun c => nth c (bpts s ++ tpts s) 99) (side_corners sd).

(** run a history; collect one observation per GetFace, and the final state *)
Fixpoint frun (s : fst8) (cs : list fcall) : list (list nat) * fst8 :=
  match cs with
  | [] => ([], s)
  | c :: r =>
      let s' := fstep s c in
      let '(o, sf) := frun s' r in
      (match c with GetFace sd => face_obs s' sd :: o | _ => o end, sf)
  end.

Definition fstate_obs (s : fst8) : list (list nat) := [bpts s; tpts s; beds s; teds s].

(** comparison: get_face observations as sets, final state exactly *)
Definition nat_list_eqb (l m : list nat) : bool := (length l =? length m) && forallb (fun p => fst p =? snd p) (combine l m).
Definition nat_set_eqb (l m : list nat) : bool :=
  (length l =? length m) && forallb (fun x => existsb (Nat.eqb x) m) l && forallb (fun x => existsb (Nat.eqb x) l) m.
Fixpoint all2 {A} (f : A -> A -> bool) (l m : list A) : bool :=
  match l, m with
  | [], [] => true
  | x :: l', y :: m' => f x y && all2 f l' m'
  | _, _ => false
  end.

Definition fhist_agrees (cs : list fcall) (impl_obs : list (list nat)) (impl_final : list (list nat)) : bool :=
  let '(o, sf) := frun finit cs in
  all2 nat_set_eqb o impl_obs && all2 nat_list_eqb (fstate_obs sf) impl_final.
