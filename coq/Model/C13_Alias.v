(** C13 - how a clamp holds the point that defines its line, and what repeated optimize() calls do to a
    vertex whose position array is moved IN PLACE (executable model, no proofs here).

    Abstracted from /repo/src/classy_blocks:
      items/vertex.py                 Vertex.move_to writes into the SAME position array        -> a heap cell, [write]
      optimize/optimizer.py           MeshOptimizer.backport: mesh.vertices[i].move_to(grid.points[i])
                                                                                                -> [backport]
      optimize/clamps/curve.py        LineClamp.__init__(position, point_1, point_2, bounds):
                                        point_1 = np.array(point_1)    (a COPY, taken once)     -> [ByCopy]
                                        point_1 = np.asarray(point_1)  (no copy: the caller's array; the aliased
                                                                        variant)                -> [ByRef]
                                        function(t) = point_1 + t[0] * unit(point_2 - point_1)  -> [clamp_pos]
                                        bounds on t, params (kept between optimize() calls)     -> [c_lo] [c_hi] [c_t]
      the library's examples          LineClamp(v.position, v.position, v.position + d, bounds) -> [make_clamp]
      optimize() called again on the same optimizer                                             -> [run]

    One coordinate is enough: positions are integers, the line has direction 1, function(t) = point_1 + t.
    What scipy.optimize.minimize returns is an ORACLE: an arbitrary function of the current heap and clamp
    (as the trial lists of Model/C13_Optimizer.v); [respectsb] says it stayed inside the bounds it was given. *)
From Coq Require Import List Bool Arith ZArith.
Import ListNotations.
Open Scope Z_scope.

(** * 1. heap of position arrays, a vertex is a reference *)
Definition heap : Type := list Z.

Definition read (h : heap) (r : nat) : Z := nth r h 0.

(** Vertex.move_to: in place *)
Fixpoint write (r : nat) (v : Z) (h : heap) : heap :=
  match h, r with
  | [], _ => []
  | _ :: t, O => v :: t
  | x :: t, S r' => x :: write r' v t
  end.

(** * 2. clamps *)
Inductive holds : Type :=
| ByCopy (p1 : Z)     (* np.array(point_1): the value at construction *)
| ByRef (r : nat).    (* np.asarray(point_1): the caller's array itself *)

Record clamp : Type := mkClamp { c_def : holds; c_lo : Z; c_hi : Z; c_t : Z }.

Definition set_t (c : clamp) (t : Z) : clamp := mkClamp (c_def c) (c_lo c) (c_hi c) t.

(** LineClamp(v.position, v.position, v.position + d, (lo, hi)); the vertex is at parameter 0 *)
Definition make_clamp (copy : bool) (h : heap) (r : nat) (lo hi : Z) : clamp :=
  mkClamp (if copy then ByCopy (read h r) else ByRef r) lo hi 0.

Definition def_point (h : heap) (c : clamp) : Z :=
  match c_def c with ByCopy p1 => p1 | ByRef r => read h r end.

(** clamp.function(clamp.params) *)
Definition clamp_pos (h : heap) (c : clamp) : Z := def_point h c + c_t c.

(** backport of the clamped vertex [r] *)
Definition backport (h : heap) (r : nat) (c : clamp) : heap := write r (clamp_pos h c) h.

(** * 3. one optimize() call, several of them *)
Definition oracle : Type := heap -> clamp -> Z.

Definition step_clamp (o : oracle) (h : heap) (c : clamp) : clamp := set_t c (o h c).
Definition step_heap (o : oracle) (r : nat) (h : heap) (c : clamp) : heap := backport h r (step_clamp o h c).

Fixpoint run (os : list oracle) (r : nat) (h : heap) (c : clamp) : heap * clamp :=
  match os with
  | [] => (h, c)
  | o :: os' => run os' r (step_heap o r h c) (step_clamp o h c)
  end.

(** the states after each call *)
Fixpoint trace (os : list oracle) (r : nat) (h : heap) (c : clamp) : list (heap * clamp) :=
  match os with
  | [] => []
  | o :: os' => (step_heap o r h c, step_clamp o h c) :: trace os' r (step_heap o r h c) (step_clamp o h c)
  end.

(** the parameters chosen in the calls *)
Fixpoint chosen (os : list oracle) (r : nat) (h : heap) (c : clamp) : list Z :=
  match os with
  | [] => []
  | o :: os' => o h c :: chosen os' r (step_heap o r h c) (step_clamp o h c)
  end.

(** every chosen parameter is inside the bounds of the clamp *)
Fixpoint respectsb (os : list oracle) (r : nat) (h : heap) (c : clamp) : bool :=
  match os with
  | [] => true
  | o :: os' => (c_lo c <=? o h c) && (o h c <=? c_hi c) && respectsb os' r (step_heap o r h c) (step_clamp o h c)
  end.

Definition sumz (l : list Z) : Z := fold_right Z.add 0 l.

(** * 4. a miniature: three vertices, vertex 1 (at 10) clamped with bounds (0, 3); minimisers that go to the
    upper bound, to the lower bound, and half way between the current parameter and the upper bound *)
Definition mini_heap : heap := [7; 10; 20].
Definition to_hi : oracle := fun _ c => c_hi c.
Definition to_lo : oracle := fun _ c => c_lo c.
Definition half_up : oracle := fun _ c => (c_t c + c_hi c) / 2.
