(** C07 - side edges made by constructors and moved with the whole operation (no proofs in this file).

    Transcribed from /repo/src/classy_blocks:
      construct/operations/operation.py  Operation.from_series:
            loft = cls(faces[0], faces[-1]);  if len(faces) == 2: return loft      (four Line() side edges)
            for i in range(4): points = [face.points[i].position for face in faces[1:-1]]
            for i in range(4): Arc(points[0]) if len(points) == 1 else Spline(points)
      construct/operations/operation.py  Operation.invert: swap bottom/top face, [edge.reverse()] for every side edge
      construct/operations/operation.py  Operation.edges: side edge i is the beam (i, i + 4)
      construct/edges.py                 EdgeData.reverse (nothing), Angle.reverse (angle = -angle),
                                         Spline.reverse (np.flip of the point array)
      construct/operations/revolve.py    Revolve.__init__: add_side_edge(i, Angle(angle, axis)) for i in range(4)
      base/element.py                    ElementBase.translate/rotate/scale/mirror: the same call on every element of [parts]
    Points are abstract ([pt] is any type): what is modelled is which points go where, in which order.
    A Face has exactly four points (Face.__init__ refuses anything else); a face with fewer than i+1 points
    contributes nothing here, whereas Python would raise - outside the domain of Face. *)
From Coq Require Import List Bool Arith ZArith.
Import ListNotations.

(** faces[1:-1] *)
Definition middle {A : Type} (l : list A) : list A := removelast (tl l).

(** [face.points[i]] *)
Definition corner {pt : Type} (f : list pt) (i : nat) : list pt :=
  match nth_error f i with Some p => [p] | None => [] end.

(** the collecting loop: edge_points[i] *)
Definition series_points {pt : Type} (faces : list (list pt)) (i : nat) : list pt :=
  flat_map (fun f => corner f i) (middle faces).

(** what from_series puts on side i *)
Inductive skind := SError | SLine | SArc | SSpline.

Definition series_kind {pt : Type} (faces : list (list pt)) (i : nat) : skind :=
  if length faces <? 2 then SError
  else if length faces =? 2 then SLine
  else if length (series_points faces i) =? 1 then SArc else SSpline.

(** ** edge data on a side slot *)
Inductive edata (pt : Type) : Type :=
| DLine
| DArc (p : pt)
| DSpline (pts : list pt)
| DAngle (angle : Z).         (* the axis is not direction data of the slot: it is not touched by reverse *)
Arguments DLine {pt}.
Arguments DArc {pt} p.
Arguments DSpline {pt} pts.
Arguments DAngle {pt} angle.

(** EdgeData.reverse and its overrides *)
Definition reverse {pt : Type} (d : edata pt) : edata pt :=
  match d with
  | DSpline pts => DSpline (rev pts)
  | DAngle a => DAngle (- a)%Z
  | other => other
  end.

Definition map_edata {pt qt : Type} (g : pt -> qt) (d : edata pt) : edata qt :=
  match d with
  | DLine => DLine
  | DArc p => DArc (g p)
  | DSpline pts => DSpline (map g pts)
  | DAngle a => DAngle a
  end.

(** the side edge from_series makes on side i *)
Definition series_edge {pt : Type} (faces : list (list pt)) (i : nat) : option (edata pt) :=
  match series_kind faces i with
  | SError => None
  | SLine => Some DLine
  | SArc => match series_points faces i with p :: _ => Some (DArc p) | [] => None end
  | SSpline => Some (DSpline (series_points faces i))
  end.

(** ** an operation: two faces and four side slots *)
Record oper (pt : Type) : Type := mkOper { bottom : list pt; top : list pt; side_edges : list (edata pt) }.
Arguments mkOper {pt} bottom top side_edges.
Arguments bottom {pt} o.
Arguments top {pt} o.
Arguments side_edges {pt} o.

Definition from_series {pt : Type} (faces : list (list pt)) : option (oper pt) :=
  match faces with
  | [] | [_] => None
  | f0 :: _ =>
      Some (mkOper f0 (last faces f0)
                   (flat_map (fun i => match series_edge faces i with Some d => [d] | None => [] end) (seq 0 4)))
  end.

(** Operation.invert *)
Definition invert {pt : Type} (o : oper pt) : oper pt := mkOper (top o) (bottom o) (map reverse (side_edges o)).

(** an operation moved as a whole by a map of space that leaves angles alone (translate, rotate, scale) *)
Definition move {pt qt : Type} (g : pt -> qt) (o : oper pt) : oper qt :=
  mkOper (map g (bottom o)) (map g (top o)) (map (map_edata g) (side_edges o)).

(** Operation.edges / Frame: side edge i is written from corner i to corner i + 4 *)
Definition side_dir (i : nat) : nat * nat := (i, i + 4).
(** Operation.points = bottom_face.points + top_face.points *)
Definition op_corners {pt : Type} (o : oper pt) : list pt := bottom o ++ top o.

(** the curve side slot i describes: start corner, listed points, end corner *)
Definition gdrawn {pt : Type} (a : pt) (pts : list pt) (b : pt) : list pt := a :: pts ++ [b].
Definition side_curve {pt : Type} (o : oper pt) (i : nat) : option (list pt) :=
  match nth_error (op_corners o) (fst (side_dir i)), nth_error (side_edges o) i, nth_error (op_corners o) (snd (side_dir i)) with
  | Some a, Some (DSpline pts), Some b => Some (gdrawn a pts b)
  | Some a, Some (DArc p), Some b => Some (gdrawn a [p] b)
  | _, _, _ => None
  end.

(** ** slots holding references *)
(** the heap of edge-data objects, the slots refer to them by position *)
Fixpoint upd {D : Type} (h : list D) (r : nat) (f : D -> D) : list D :=
  match h, r with
  | [], _ => []
  | x :: t, 0 => f x :: t
  | x :: t, S r' => x :: upd t r' f
  end.

(** [for part in self.parts: part.f()]: one call per slot, on whatever object the slot refers to *)
Definition apply_to_parts {D : Type} (f : D -> D) (slots : list nat) (h : list D) : list D :=
  fold_left (fun h r => upd h r f) slots h.

(** one call per edge-data object that some slot refers to *)
Definition apply_once_per_edge {D : Type} (f : D -> D) (slots : list nat) (h : list D) : list D :=
  fold_left (fun h r => upd h r f) (nodup Nat.eq_dec slots) h.

(** what the slots show *)
Definition view {D : Type} (slots : list nat) (h : list D) : list (option D) := map (nth_error h) slots.

(** ** comparison with the implementation (harness/props/C07.py, stream (d)); points are ids *)
(** kind codes: 1 line, 2 arc, 3 spline *)
Definition edata_code (d : edata nat) : nat * list nat :=
  match d with
  | DLine => (1, [])
  | DArc p => (2, [p])
  | DSpline pts => (3, pts)
  | DAngle _ => (4, [])
  end.
Fixpoint ids_eqb (a b : list nat) : bool :=
  match a, b with
  | [], [] => true
  | x :: a', y :: b' => (x =? y) && ids_eqb a' b'
  | _, _ => false
  end.
Fixpoint codes_eqb (a b : list (nat * list nat)) : bool :=
  match a, b with
  | [], [] => true
  | (k, p) :: a', (l, q) :: b' => (k =? l) && ids_eqb p q && codes_eqb a' b'
  | _, _ => false
  end.
Definition oper_codes (o : option (oper nat)) : list (nat * list nat) :=
  match o with Some o => map edata_code (side_edges o) | None => [] end.
(** a case: faces as lists of ids; the four side edges found on the constructed operation; the same after invert() *)
Definition series_agree (c : list (list nat) * list (nat * list nat) * list (nat * list nat)) : bool :=
  let '(faces, impl, impl_inv) := c in
  codes_eqb (oper_codes (from_series faces)) impl
  && codes_eqb (oper_codes (option_map invert (from_series faces))) impl_inv.
