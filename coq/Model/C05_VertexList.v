(** C05 - executable model of vertex creation during [Mesh.assemble] (no proofs in this file).

    Transcribed from
      - lists/vertex_list.py : [DuplicatedEntry], [VertexList.find_duplicated], [VertexList.add]
        (the branch taken when [slave_patches] is a list; [Mesh._add_vertices] always passes a list,
        the [None] branch is not reachable from assembly and is not modelled),
      - items/vertex.py      : [Vertex.from_point] (a vertex remembers the index it was created with),
      - construct/operations/operation.py : [Operation.get_patches_at_corner],
      - lists/patch_list.py  : [PatchList.slave_patches],
      - mesh.py              : [Mesh._add_vertices] and the vertex part of [Mesh.assemble].

    Positions are an abstract type [P] with the boolean relation [near a b] standing for
    [f.norm(a - b) < constants.TOL]; patch names are numbers whose order is the order of the
    Python strings (the harness numbers the names of a program by their rank under [sorted]). *)
From Coq Require Import List Bool Arith ZArith.
From CB Require Import Base.Hex.
Import ListNotations.
Open Scope nat_scope.

(** ** keys: lists of patch names *)
Fixpoint key_eqb (a b : list nat) : bool :=
  match a, b with
  | [], [] => true
  | x :: a', y :: b' => (x =? y) && key_eqb a' b'
  | _, _ => false
  end.

(** [list.sort()] / [sorted] on names *)
Fixpoint insert (x : nat) (l : list nat) : list nat :=
  match l with
  | [] => [x]
  | y :: t => if x <=? y then x :: l else y :: insert x t
  end.
Fixpoint sort (l : list nat) : list nat :=
  match l with
  | [] => []
  | x :: t => insert x (sort t)
  end.

Definition memb (x : nat) (l : list nat) : bool := existsb (Nat.eqb x) l.

(** a Python [set] built by successive [add]: no repetitions (its iteration order is irrelevant
    because the only consumer sorts) *)
Fixpoint dedup (l : list nat) : list nat :=
  match l with
  | [] => []
  | x :: t => if memb x t then dedup t else x :: dedup t
  end.

Section VertexList.
  Variable P : Type.
  Variable near : P -> P -> bool.

  Record vertex := mkV { vpos : P; vindex : nat }.
  (** [DuplicatedEntry]: the vertex object and [sorted(patches)] *)
  Record dupe := mkD { dvertex : vertex; dpatches : list nat }.
  (** [VertexList]: [vertices] (the written list) and [duplicated] (the registry) *)
  Record vlist := mkVL { vertices : list vertex; duplicated : list dupe }.
  Definition vl_empty : vlist := mkVL [] [].

  (** [find_duplicated] after its [slave_patches.sort()]: first registry entry at the position
      whose patch list equals the (sorted) request *)
  Fixpoint find_duplicated (ds : list dupe) (p : P) (k : list nat) : option vertex :=
    match ds with
    | [] => None
    | d :: r =>
        if near p (vpos (dvertex d)) && key_eqb (dpatches d) k then Some (dvertex d)
        else find_duplicated r p k
    end.

  (** [VertexList.add(point, slave_patches)] with a list argument (scenario 3 of the source) *)
  Definition add (l : vlist) (p : P) (k : list nat) : vlist * vertex :=
    let k1 := sort k in                          (* slave_patches.sort() inside find_duplicated *)
    match find_duplicated (duplicated l) p k1 with
    | Some v => (l, v)
    | None =>
        let v := mkV p (length (vertices l)) in   (* Vertex.from_point(point, len(self.vertices)) *)
        (mkVL (vertices l ++ [v]) (duplicated l ++ [mkD v (sort k1)]), v)   (* DuplicatedEntry sorts again *)
    end.

  (** a sequence of [add] calls, returning the vertices handed back *)
  Fixpoint run (l : vlist) (reqs : list (P * list nat)) : vlist * list vertex :=
    match reqs with
    | [] => (l, [])
    | (p, k) :: t =>
        let '(l1, v) := add l p k in
        let '(l2, vs) := run l1 t in
        (l2, v :: vs)
    end.

  (** ** operations *)
  (** eight corner points and the optional patch name of each side, in the order of [Hex.sides]
      = bottom, top, left, right, front, back *)
  Record operation := mkOp { opoints : list P; opatches : list (option nat) }.

  Definition side_slot (s : side) : nat :=
    match s with Bottom => 0 | Top => 1 | Left => 2 | Right => 3 | Front => 4 | Back => 5 end.
  Definition patch_of (op : operation) (s : side) : option nat := nth (side_slot s) (opatches op) None.

  (** [get_patches_at_corner]: names of the patched sides meeting at the corner, as a set *)
  Definition patches_at_corner (op : operation) (c : nat) : list nat :=
    dedup (flat_map (fun s => match patch_of op s with Some n => [n] | None => [] end) (sides_at c)).

  (** [list(patches.intersection(self.patch_list.slave_patches))] *)
  Definition slave_key (slaves : list nat) (op : operation) (c : nat) : list nat :=
    filter (fun n => memb n slaves) (patches_at_corner op c).

  Definition op_requests (slaves : list nat) (dflt : P) (op : operation) : list (P * list nat) :=
    map (fun c => (nth c (opoints op) dflt, slave_key slaves op c)) corners.

  (** [_add_vertices] *)
  Definition add_vertices (slaves : list nat) (dflt : P) (l : vlist) (op : operation) : vlist * list vertex :=
    run l (op_requests slaves dflt op).

  (** the vertex part of [assemble]: one block (its eight vertices) per operation *)
  Fixpoint assemble_from (slaves : list nat) (dflt : P) (l : vlist) (ops : list operation)
    : vlist * list (list vertex) :=
    match ops with
    | [] => (l, [])
    | op :: t =>
        let '(l1, vs) := add_vertices slaves dflt l op in
        let '(l2, bs) := assemble_from slaves dflt l1 t in
        (l2, vs :: bs)
    end.

  (** [merged] is the list of (master, slave) pairs of [merge_patches] calls *)
  Definition slave_patches (merged : list (nat * nat)) : list nat := map snd merged.

  Definition assemble (merged : list (nat * nat)) (dflt : P) (ops : list operation) :=
    assemble_from (slave_patches merged) dflt vl_empty ops.

  (** observation: positions in output order, the index each vertex object carries, and
      [Block.vertices] as indexes *)
  Definition observe (r : vlist * list (list vertex)) : list P * list nat * list (list nat) :=
    (map vpos (vertices (fst r)), map vindex (vertices (fst r)), map (map vindex) (snd r)).
End VertexList.

Arguments mkV {P}. Arguments vpos {P}. Arguments vindex {P}.
Arguments mkD {P}. Arguments dvertex {P}. Arguments dpatches {P}.
Arguments mkVL {P}. Arguments vertices {P}. Arguments duplicated {P}.
Arguments vl_empty {P}.
Arguments mkOp {P}. Arguments opoints {P}. Arguments opatches {P}.
Arguments patch_of {P}. Arguments patches_at_corner {P}. Arguments slave_key {P}.
Arguments op_requests {P}. Arguments observe {P}.

(** ** the instance used by the correspondence: points on the lattice of 2^-30, squared distance
    compared with [tol2 = floor((TOL * 2^30)^2)] (regenerated from [constants.TOL]) *)
Definition zpoint := (Z * Z * Z)%type.
Definition zp (x y z : Z) : zpoint := (x, y, z).
Arguments zp (x y z)%Z.
(** lattice literal: coordinate = g * 2^e + o (keeps the numerals of the generated case files small) *)
Definition zl (e : Z) (gx ox gy oy gz oz : Z) : zpoint :=
  (gx * 2 ^ e + ox, gy * 2 ^ e + oy, gz * 2 ^ e + oz)%Z.
Arguments zl (e gx ox gy oy gz oz)%Z.
Definition zdist2 (a b : zpoint) : Z :=
  let '(x, y, z) := a in let '(u, v, w) := b in
  ((x - u) * (x - u) + (y - v) * (y - v) + (z - w) * (z - w))%Z.
Definition near_z (tol2 : Z) (a b : zpoint) : bool := Z.leb (zdist2 a b) tol2.

Definition zpoint_eqb (a b : zpoint) : bool :=
  let '(x, y, z) := a in let '(u, v, w) := b in Z.eqb x u && Z.eqb y v && Z.eqb z w.

Fixpoint list_eqb {A} (e : A -> A -> bool) (a b : list A) : bool :=
  match a, b with
  | [], [] => true
  | x :: a', y :: b' => e x y && list_eqb e a' b'
  | _, _ => false
  end.

(** a correspondence case: merged pairs, operations, and what the implementation produced *)
Definition zcase := (nat * list (nat * nat) * list (@operation zpoint) * (list zpoint * list nat * list (list nat)))%type.

Definition zcase_agrees (tol2 : Z) (c : zcase) : bool :=
  let '(_, merged, ops, (epos, eidx, eblocks)) := c in
  let '(mpos, midx, mblocks) := observe (assemble zpoint (near_z tol2) merged (0, 0, 0)%Z ops) in
  list_eqb zpoint_eqb mpos epos && list_eqb Nat.eqb midx eidx && list_eqb (list_eqb Nat.eqb) mblocks eblocks.

Definition zcase_id (c : zcase) : nat := fst (fst (fst c)).
Definition mismatching (tol2 : Z) (cs : list zcase) : list nat :=
  map zcase_id (filter (fun c => negb (zcase_agrees tol2 c)) cs).
