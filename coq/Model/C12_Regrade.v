(** C12 - Mesh.grade as it runs on EVERY mesh.write(), on a mesh that may have been graded before.

    Mesh.grade = BlockList.grade_blocks ; propagate_gradings ; check_consistency is the model of
    Model/Propagate.v (C01/C02).  That file starts from the state assemble() leaves ([init]); here the
    same functions are run from an arbitrary state [s] - the one an earlier write left behind:

    - an axis the user chopped (WireChopManager.grade, after fixes/C12-1.diff) gives each of its wires a
      fresh Grading and adds the user's chops again: [grade_axis2];  the chops of a WireChopManager
      are the user's and never change (copy_grading only adds chops to an undefined axis);
    - an axis without user chops (WirePropagateManager.grade) keeps the chops it copied and its wires
      keep their gradings; copy_neighbours copies again from every DEFINED coincident wire (the last
      one wins), propagate_grading skips defined wires: [Propagate.grade_axis] unchanged;
    - BlockList.propagate_gradings / Axis.copy_grading / check_consistency: unchanged.

    The state a write leaves on the blocks is kept in finite form (per block the section lists of its
    twelve wires and the chops held by its three axes): [tab_g], [tab_a], [untab].  No proofs here. *)
From Coq Require Import List Bool Arith.
From CB Require Import Model.Propagate.
Import ListNotations.

Section Regrade.
  Variable bs : list blk.
  Variable o_coin : wire -> list wire.
  Variable o_nbrs : axis -> list axis.

  (** WireChopManager.grade with the repair: wire.grading = Grading(length); then every chop is added *)
  Definition grade_axis2 (s : st) (x : axis) : st :=
    if chopped bs x then
      fold_left (fun s w => {| g := upd_g (g s) w (user_chops bs x); ach := ach s |}) (wires_of_axis x) s
    else grade_axis bs o_coin s x.
  Definition grade_block2 (s : st) (b : nat) : st := fold_left grade_axis2 (axes_of_block b) s.
  Definition grade_blocks2 (s : st) : st := fold_left grade_block2 (seq 0 (nblocks bs)) s.

  Inductive gres := GOk (s : st) | GUndefined | GInconsistent | GNoFuel | GBadOracle.

  (** [fx = false]: the code before fixes/C12-1.diff (chops appended to what the wires hold) *)
  Definition grade (fx : bool) (s : st) : gres :=
    if negb (oracle_ok bs o_coin o_nbrs) then GBadOracle else
    match propagate bs o_coin o_nbrs (fuel0 bs)
            ((if fx then grade_blocks2 else grade_blocks bs o_coin) s) (seq 0 (nblocks bs)) with
    | OutOfFuel => GNoFuel
    | Stuck _ _ => GUndefined
    | Done s' => if consistent bs s' then GOk s' else GInconsistent
    end.

  (** ** finite form of the state *)
  Definition block_wires (b : nat) : list wire := flat_map wires_of_axis (axes_of_block b).
  Definition tab_g (s : st) (b : nat) : list (list nat) := map (g s) (block_wires b).
  (** chops held by the managers of the axes WITHOUT user chops (copies made by Axis.copy_grading) *)
  Definition tab_a (s : st) (b : nat) : list (list nat) :=
    map (fun x => if chopped bs x then [] else ach s x) (axes_of_block b).

  Definition untab (G A : list (list (list nat))) : st :=
    {| g := fun w => let '(b, a, k) := w in
                     if (a <? 3) && (k <? 4) then nth (4 * a + k) (nth b G []) [] else [];
       ach := fun x => if chopped bs x then user_chops bs x else nth (snd x) (nth (fst x) A []) [] |}.
End Regrade.
