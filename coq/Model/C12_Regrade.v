(** C12 - Mesh.grade as it runs on EVERY mesh.write(), on a mesh that may have been graded before.

    Mesh.grade = BlockList.grade_blocks ; propagate_gradings ; check_consistency is the model of
    Model/Propagate.v (C01/C02), which starts from the state assemble() leaves ([init]).

    REPAIRED code (/repo 79421ab, fixes/C12-4.diff) - [grade]: BlockList.grade_blocks first calls reset() on
    every wire manager: every wire gets an empty Grading, a WirePropagateManager drops the chops it copied,
    a WireChopManager empties its axis-level grading and keeps the user's chops (they are the user's and
    never change: copy_grading only adds chops to an undefined axis) - [reset]; then it grades, propagates
    and checks as in the first run.  What an earlier write left behind is discarded.

    Code BEFORE that repair - [grade_no_reset], kept because the theorem about it explains why the defect
    was invisible for count-only chops: the same functions run from the state [s] an earlier write left:
    - an axis the user chopped (WireChopManager.grade, after fixes/C12-1.diff) gives each of its wires a
      fresh Grading and adds the user's chops again: [grade_axis2];
    - an axis without user chops (WirePropagateManager.grade) keeps the chops it copied and its wires
      keep their gradings; copy_neighbours copies again from every DEFINED coincident wire (the last
      one wins), propagate_grading skips defined wires: [Propagate.grade_axis] unchanged;
    - BlockList.propagate_gradings / Axis.copy_grading / check_consistency: unchanged.

    Edge lengths are no input of this model: a chop is its count.  (They are inputs of the payload model
    of C04, where a count can follow a length; after the repair a repeated grade recomputes from them.)

    The state a write leaves on the blocks is kept in finite form (per block the section lists of its
    twelve wires and the chops held by its three axes): [tab_g], [tab_a], [untab].  No proofs here. *)
From Coq Require Import List Bool Arith.
From CB Require Import Model.Propagate.
Import ListNotations.

Section Regrade.
  Variable bs : list blk.
  Variable o_coin : wire -> list wire.
  Variable o_nbrs : axis -> list axis.

  (** WireChopManager.grade with the repair: wire.grading = Grading(length); then every chop is added *)
  Definition grade_axis2 (s : st) (x : axis) : st :=
    if chopped bs x then
      fold_left (fun s w => {| g := upd_g (g s) w (user_chops bs x); ach := ach s |}) (wires_of_axis x) s
    else grade_axis bs o_coin s x.
  Definition grade_block2 (s : st) (b : nat) : st := fold_left grade_axis2 (axes_of_block b) s.
  Definition grade_blocks2 (s : st) : st := fold_left grade_block2 (seq 0 (nblocks bs)) s.

  Inductive gres := GOk (s : st) | GUndefined | GInconsistent | GNoFuel | GBadOracle.

  (** before fixes/C12-4.diff; [fx = false]: also before fixes/C12-1.diff (chops appended to what the wires hold) *)
  Definition grade_no_reset (fx : bool) (s : st) : gres :=
    if negb (oracle_ok bs o_coin o_nbrs) then GBadOracle else
    match propagate bs o_coin o_nbrs (fuel0 bs)
            ((if fx then grade_blocks2 else grade_blocks bs o_coin) s) (seq 0 (nblocks bs)) with
    | OutOfFuel => GNoFuel
    | Stuck _ _ => GUndefined
    | Done s' => if consistent bs s' then GOk s' else GInconsistent
    end.

  (** WireManagerBase.reset on every axis of every block: no wire holds a grading, no propagate manager
      holds chops, the chop managers hold the user's chops - whatever [s] was *)
  Definition reset (s : st) : st := {| g := fun _ => []; ach := user_chops bs |}.
  (** the repaired Mesh.grade *)
  Definition grade (s : st) : gres := grade_no_reset true (reset s).

  (** ** finite form of the state *)
  Definition block_wires (b : nat) : list wire := flat_map wires_of_axis (axes_of_block b).
  Definition tab_g (s : st) (b : nat) : list (list nat) := map (g s) (block_wires b).
  (** chops held by the managers of the axes WITHOUT user chops (copies made by Axis.copy_grading) *)
  Definition tab_a (s : st) (b : nat) : list (list nat) :=
    map (fun x => if chopped bs x then [] else ach s x) (axes_of_block b).

  Definition untab (G A : list (list (list nat))) : st :=
    {| g := fun w => let '(b, a, k) := w in
                     if (a <? 3) && (k <? 4) then nth (4 * a + k) (nth b G []) [] else [];
       ach := fun x => if chopped bs x then user_chops bs x else nth (snd x) (nth (fst x) A []) [] |}.
End Regrade.
