(** C13 - the instance of the optimizer model used by the correspondence check (no proofs).

    Parameters X and points P are interned as numbers (N; 0 = "never tabulated"), quality values
    are exact binary64 values in Q.  The clamp functions, link transforms and quality functions
    are the finite tables the harness produced by running the real code on the arguments that
    occur; [check_case] runs the model on the recorded oracles and compares with the snapshots
    of the implementation. *)
From Coq Require Import List Bool Arith NArith QArith.
From CB Require Import Model.C13_Optimizer.
Import ListNotations.

Definition lookup3 (tab : list (nat * N * N)) (a : nat) (b : N) : N :=
  match find (fun e => (fst (fst e) =? a)%nat && (snd (fst e) =? b)%N) tab with
  | Some e => snd e
  | None => 0%N
  end.

Fixpoint nlist_eqb (l m : list N) : bool :=
  match l, m with
  | [], [] => true
  | a :: l', b :: m' => (a =? b)%N && nlist_eqb l' m'
  | _, _ => false
  end.

Definition poison : Q := (-1 # 1)%Q.

Definition mk_grid (nclamps : nat) (ftab ttab : list (nat * N * N)) (gq : list (list N * Q))
           (gbad : list (list N)) (jbad : list (nat * list N)) (cj : list nat)
           (links : list (nat * list (nat * nat))) : grid N N Q :=
  {| g_clamps := map (fun cid => {| c_j := nth cid cj 0%nat; c_fun := fun x => lookup3 ftab cid x |}) (seq 0 nclamps);
     g_links := fun j =>
       match find (fun e => (fst e =? j)%nat) links with
       | Some e => map (fun lf => {| l_fol := snd lf; l_tr := fun p => lookup3 ttab (fst lf) p |}) (snd e)
       | None => []
       end;
     g_gq := fun s =>
       if existsb (nlist_eqb s) gbad then None
       else match find (fun e => nlist_eqb s (fst e)) gq with
            | Some e => Some (snd e)
            | None => Some poison
            end;
     g_jq := fun j s => if existsb (fun e => (fst e =? j)%nat && nlist_eqb s (snd e)) jbad then None else Some 0%Q |}.

Definition state_eqb (s : state N N) (t : list N * list N) : bool :=
  nlist_eqb (pts s) (fst t) && nlist_eqb (prm s) (snd t).

Definition is_measure (e : event N) : bool := match e with EMeasure => true | _ => false end.

Definition ev_cid (e : event N) : nat := match e with EMeasure => 0%nat | EProbe c _ => c | EOpt c _ => c end.
Definition is_probe (e : event N) : bool := match e with EProbe _ _ => true | _ => false end.
Definition is_opt (e : event N) : bool := match e with EOpt _ _ => true | _ => false end.

Fixpoint natlist_eqb (l m : list nat) : bool :=
  match l, m with
  | [], [] => true
  | a :: l', b :: m' => (a =? b)%nat && natlist_eqb l' m'
  | _, _ => false
  end.

(** optimize(): every iteration is begin, sensitivity of clamps 0..n-1 in order, optimize_clamp of
    every clamp exactly once, end *)
Fixpoint shape (fuel n : nat) (evs : list (event N)) : bool :=
  match fuel with
  | O => false
  | S fuel' =>
      match evs with
      | [] => true
      | EMeasure :: r =>
          let probes := firstn n r in
          let opts := firstn n (skipn n r) in
          let rest := skipn (2 * n) r in
          forallb is_probe probes && natlist_eqb (map ev_cid probes) (seq 0 n)
          && forallb is_opt opts && (length opts =? n)%nat
          && forallb (fun c => existsb (fun e => (ev_cid e =? c)%nat) opts) (seq 0 n)
          && match rest with EMeasure :: rest' => shape fuel' n rest' | _ => false end
      | _ => false
      end
  end.

Definition q_ok (q : Q) : bool := negb (Qeq_bool q poison).

(** every quality value the model used was tabulated, and whatever is kept is no worse *)
Definition outcome_ok (o : outcome Q) : bool :=
  match o with
  | Kept a b => q_ok a && q_ok b && Qle_bool b a
  | RolledBack a b => q_ok a && q_ok b && Qle_bool a b
  | Measured a => q_ok a
  | _ => true
  end.

(** the rollback test of the code is "improvement <= 0" ([Qle_bool q0 q1]).  At an exact tie
    (q0 = q1, the discontinuity of that decision: DESIGN 2.4) the other reading "improvement < 0"
    ([Qlt_bool]: ties are kept) is accepted as well; both are covered by the theorems
    ([keeps_no_worse], Proofs/C13_Instances.v).  Without an exact tie the two runs coincide. *)
Definition Qlt_bool (a b : Q) : bool := negb (Qle_bool b a).

Fixpoint measured (tr : list (state N N * outcome Q)) : list Q :=
  match tr with
  | [] => []
  | (_, Measured q) :: r => q :: measured r
  | _ :: r => measured r
  end.

Fixpoint pairs_eqb (ms : list Q) (its : list (Q * Q)) : bool :=
  match ms, its with
  | [], [] => true
  | a :: b :: r, (x, y) :: r' => Qeq_bool a x && Qeq_bool b y && pairs_eqb r r'
  | _, _ => false
  end.

Fixpoint snaps_eqb (l : list (state N N)) (m : list (list N * list N)) : bool :=
  match l, m with
  | [], [] => true
  | a :: l', b :: m' => state_eqb a b && snaps_eqb l' m'
  | _, _ => false
  end.

Definition check_case_with (rb : Q -> Q -> bool) (nclamps : nat) (ftab ttab : list (nat * N * N)) (gq : list (list N * Q))
           (gbad : list (list N)) (jbad : list (nat * list N)) (cj : list nat)
           (links : list (nat * list (nat * nat))) (events : list (event N)) (init : state N N)
           (snaps : list (list N * list N)) (final : list N * list N) (mesh0 mesh1 : list N)
           (iters : list (Q * Q)) (raised : bool) : bool :=
  let g := mk_grid nclamps ftab ttab gq gbad jbad cj links in
  let '(tr, fin) := run_events rb g init events in
  let calls := map (fun te => fst (fst te)) (filter (fun te => negb (is_measure (snd te))) (combine tr events)) in
  wfb g (length (pts init))
  && (length (prm init) =? nclamps)%nat
  && Bool.eqb (negb (completed tr)) raised
  && snaps_eqb calls snaps
  && state_eqb fin final
  && nlist_eqb (if completed tr then pts fin else mesh0) mesh1
  && forallb (fun so => outcome_ok (snd so)) tr
  && (raised || (shape (S (length events)) nclamps events && pairs_eqb (measured tr) iters)).

Definition check_case (nclamps : nat) (ftab ttab : list (nat * N * N)) (gq : list (list N * Q))
           (gbad : list (list N)) (jbad : list (nat * list N)) (cj : list nat)
           (links : list (nat * list (nat * nat))) (events : list (event N)) (init : state N N)
           (snaps : list (list N * list N)) (final : list N * list N) (mesh0 mesh1 : list N)
           (iters : list (Q * Q)) (raised : bool) : bool :=
  if check_case_with Qle_bool nclamps ftab ttab gq gbad jbad cj links events init snaps final mesh0 mesh1 iters raised
  then true
  else check_case_with Qlt_bool nclamps ftab ttab gq gbad jbad cj links events init snaps final mesh0 mesh1 iters raised.
