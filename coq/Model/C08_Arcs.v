(** C08 - executable real-valued model of the arc conversions (no proofs in this file).

    Transcribed from /repo/src/classy_blocks:
      util/functions.py            unit_vector, divide_arc/arc_mid, arc_length_3point, polyline_length
      items/edges/arcs/angle.py    arc_from_theta
      items/edges/arcs/origin.py   arc_from_origin
      items/edges/arcs/arc_base.py ArcEdgeBase.length / is_valid
    numpy arithmetic is read as real arithmetic; the correspondence check of harness/props/C08.py
    evaluates these definitions inside Coq (tactic [interval]) on the inputs given to the Python code. *)
From Coq Require Import Reals List.
From CB Require Import Base.Vec3.
Import ListNotations.
Open Scope R_scope.

(** functions.unit_vector: vect / norm(vect) *)
Definition vunit (v : vec) : vec := vscale (/ norm v) v.
Definition dist (p q : vec) : R := norm (vsub p q).

(** np.linspace(p1, p2, num=3)[1] = p1 + 1 * ((p2 - p1) / 2) *)
Definition secant_mid (p1 p2 : vec) : vec := vadd p1 (vscale (/ 2) (vsub p2 p1)).

(** functions.arc_mid = divide_arc(axis, center, p1, p2, 1)[0]; the axis argument is not used by the code:
    radius = norm(center - p1); center + unit_vector(secant_mid - center) * radius *)
Definition arc_mid (c p1 p2 : vec) : vec :=
  vadd c (vscale (norm (vsub c p1)) (vunit (vsub (secant_mid p1 p2) c))).

(** *** arc_from_theta (angle.py) *)
Definition theta_pm (p1 p2 : vec) : vec := vscale (/ 2) (vadd p1 p2).
Definition theta_rm (p1 p2 a : vec) : vec := vunit (cross (vsub p2 p1) a).
Definition theta_len (p1 p2 a : vec) : R := dot (vsub p2 p1) a.
Definition theta_chord (p1 p2 a : vec) : vec := vsub (vsub p2 p1) (vscale (theta_len p1 p2 a) a).

(** center = pm - length*axis/2 - rm*mag_chord/2/tan(angle/2) *)
Definition theta_centre (p1 p2 : vec) (th : R) (a : vec) : vec :=
  vsub (vsub (theta_pm p1 p2) (vscale (theta_len p1 p2 a / 2) a))
       (vscale (norm (theta_chord p1 p2 a) / 2 / tan (th / 2)) (theta_rm p1 p2 a)).

(** the code as found in the snapshot: arc_mid(axis, center, p1, p2) *)
Definition arc_from_theta_v0 (p1 p2 : vec) (th : R) (a : vec) : vec :=
  arc_mid (theta_centre p1 p2 th a) p1 p2.

(** the code after fixes/C08-1.diff: pm + rm * mag_chord / 2 * tan(angle / 4) *)
Definition arc_from_theta (p1 p2 : vec) (th : R) (a : vec) : vec :=
  vadd (theta_pm p1 p2) (vscale (norm (theta_chord p1 p2 a) / 2 * tan (th / 4)) (theta_rm p1 p2 a)).

(** *** arc_from_origin (origin.py) *)
Definition origin_mean_radius (p1 p3 c : vec) : R := / 2 * (norm (vsub p1 c) + norm (vsub p3 c)).
(** radius*r_multiplier, floored by 1.001*0.5*norm(chord) *)
Definition origin_flat_radius (p1 p3 c : vec) (mult : R) : R :=
  Rmax (origin_mean_radius p1 p3 c * mult) (1001 / 1000 * / 2 * norm (vsub p3 p1)).
(** 0.5*(p3+p1) + (radius**2 - 0.25*norm(chord)**2)**0.5 * unit_vector(cross(axis, chord)) *)
Definition origin_new_centre (p1 p3 c : vec) (radius : R) : vec :=
  let chord := vsub p3 p1 in
  let axis := cross (vsub p1 c) (vsub p3 c) in
  vadd (vscale (/ 2) (vadd p3 p1))
       (vscale (sqrt (radius * radius - / 4 * (norm chord * norm chord))) (vunit (cross axis chord))).
Definition arc_from_origin_noadj (p1 p3 c : vec) : vec := arc_mid c p1 p3.
Definition arc_from_origin_adj (p1 p3 c : vec) (radius : R) : vec :=
  arc_mid (origin_new_centre p1 p3 c radius) p1 p3.
(** the whole function (adjust_center = True as in OriginEdge); [tol] is constants.TOL *)
Definition arc_from_origin (tol : R) (p1 p3 c : vec) (mult : R) : vec :=
  if Req_EM_T mult 1 then
    (if Rlt_dec tol (Rabs (norm (vsub p1 c) - norm (vsub p3 c)))
     then arc_from_origin_adj p1 p3 c (origin_mean_radius p1 p3 c)
     else arc_from_origin_noadj p1 p3 c)
  else arc_from_origin_adj p1 p3 c (origin_flat_radius p1 p3 c mult).

(** *** arc_length_3point (functions.py) *)
Definition a3_denom (ps pb pe : vec) : R :=
  let a := vsub pb ps in let b := vsub pe ps in
  dot a a * dot b b - dot a b * dot a b.
Definition a3_centre (ps pb pe : vec) : vec :=
  let a := vsub pb ps in let b := vsub pe ps in
  let fact := / 2 * (dot b b - dot a b) / a3_denom ps pb pe in
  vadd (vadd ps (vscale (/ 2) a)) (vscale fact (cross (cross a b) a)).
(** the quantities computed from the centre, with the centre as an argument (the correspondence check
    evaluates them on a kernel-checked enclosure of the centre, see Proofs/C08_Corr.v) *)
(** cosine of the included angle: rad_start.rad_end/(mag1*mag3) *)
Definition a3_x_at (c ps pe : vec) : R :=
  dot (vsub ps c) (vsub pe c) / (norm (vsub ps c) * norm (vsub pe c)).
(** dot(cross(rad_start, rad_btw), cross(rad_start, rad_end)); negative = "exterior" arc *)
Definition a3_flipq_at (c ps pb pe : vec) : R :=
  dot (cross (vsub ps c) (vsub pb c)) (cross (vsub ps c) (vsub pe c)).
Definition a3_x (ps pb pe : vec) : R := a3_x_at (a3_centre ps pb pe) ps pe.
Definition a3_flipq (ps pb pe : vec) : R := a3_flipq_at (a3_centre ps pb pe) ps pb pe.
Definition a3_radius (ps pb pe : vec) : R := norm (vsub pe (a3_centre ps pb pe)).
(** the value as a function of the centre: angle * norm(radius), angle = arccos(clip(x, -1, 1)) (the clip is
    fixes/C08-2.diff; Coq's [acos] is total and clipped in the same way), replaced by 2 pi - angle when the
    sign test says "exterior" *)
Definition a3_len_at (c ps pb pe : vec) : R :=
  (if Rlt_dec (a3_flipq_at c ps pb pe) 0 then 2 * PI - acos (a3_x_at c ps pe) else acos (a3_x_at c ps pe))
  * norm (vsub pe c).
Definition arc_length_3point (ps pb pe : vec) : R := a3_len_at (a3_centre ps pb pe) ps pb pe.

(** the same value with acos written through atan (what [interval] can evaluate); the two branch
    expressions are tied to [a3_len_at] by Proofs/C08_Corr.v *)
Definition acos_atan (x : R) : R := PI / 2 - atan (x / sqrt (1 - x * x)).
Definition a3_len_noflip_at (c ps pe : vec) : R := acos_atan (a3_x_at c ps pe) * norm (vsub pe c).
Definition a3_len_flip_at (c ps pe : vec) : R := (2 * PI - acos_atan (a3_x_at c ps pe)) * norm (vsub pe c).

(** *** ArcEdgeBase.length: arcs that would not be written (coincident ends or collinear third point)
    are straight lines *)
Definition arc_collinearity (v1 p3 v2 : vec) : R := norm (cross (vsub v1 p3) (vsub v2 p3)).
Definition arc_edge_length (tol : R) (v1 p3 v2 : vec) : R :=
  if Rlt_dec (dist v1 v2) tol then dist v1 v2
  else if Rlt_dec tol (arc_collinearity v1 p3 v2) then arc_length_3point v1 p3 v2
  else dist v1 v2.

(** *** functions.polyline_length: sum of the distances of consecutive points *)
Fixpoint polyline_length (l : list vec) : R :=
  match l with
  | p :: (q :: _) as r => dist p q + polyline_length r
  | _ => 0
  end.

(** *** specification side: rotation about a unit axis (Rodrigues) and the OpenFOAM definition of the
    angle/axis arc: position(lambda) = centre + rot axis (theta*lambda) (p1 - centre) *)
Definition rot (a : vec) (al : R) (v : vec) : vec :=
  vadd (vadd (vscale (cos al) v) (vscale (sin al) (cross a v))) (vscale (dot a v * (1 - cos al)) a).
(** centre with cot written as cos/sin (defined for theta = pi as well) *)
Definition spec_centre (p1 p2 : vec) (th : R) (a : vec) : vec :=
  vsub (theta_pm p1 p2) (vscale (cos (th / 2) / (2 * sin (th / 2))) (cross (vsub p2 p1) a)).
Definition spec_point (p1 p2 : vec) (th : R) (a : vec) (lam : R) : vec :=
  let c := spec_centre p1 p2 th a in vadd c (rot a (th * lam) (vsub p1 c)).
