(** C19 - core / shell of a round shape that has been mirrored (executable model, no proofs here).

    Abstracted from /repo/src/classy_blocks:
      construct/flat/face.py, sketch.py    a sketch is a list of Face OBJECTS, the first [ncore] of them its core,
                                           the others its shell                          -> face ids, [core_faces] [shell_faces]
      construct/shape.py                   LoftedShape.__init__: one Loft per face of sketch_1, in sketch order,
                                           bottom_face = the face of sketch_1, top_face = the face of sketch_2
                                                                                         -> [loft_shape]
      construct/operations/operation.py    Operation.invert: top_face, bottom_face = bottom_face, top_face
                                           Operation.mirror = super().mirror(..); self.invert()
                                                                                         -> [op_invert]
      base/element.py, construct/shape.py  Shape.translate/rotate/scale: every part moved in place (objects and
                                           their order stay); Shape.mirror: operation.mirror for every operation
                                                                                         -> [do_step] [shape_mirror]
      construct/shapes/round.py            RoundSolidShape.core  = self.operations[: len(self.sketch_1.core)]
                                           RoundSolidShape.shell = self.operations[len(self.sketch_1.core) :]
                                                                                         -> [core_by_position] [shell_by_position]
      (a seeded change)                    core = [o for o in operations if any(o.bottom_face is f for f in sketch_1.core)]
                                                                                         -> [core_by_identity]

    A Face object is its identity (a nat): transformations move faces in place, so where a face IS plays no role
    here and an id is never changed.  Geometric ground truth: a face of the shell of the sketch has an edge on the
    outer boundary, a face of the core has none (Properties/C19.v, C19_core_shell_sketches, all classes), so an
    operation touches the outer surface iff one of its two end faces is a shell face of the sketch
    -> [touches_outer], which looks at the pair {bottom, top} as a set.  No real numbers are involved. *)
From Coq Require Import List Bool Arith.
Import ListNotations.

(** * 1. operations and lofted shapes *)
Record oper : Type := mkOper { bottom : nat; top : nat }.

(** Operation.invert *)
Definition op_invert (o : oper) : oper := mkOper (top o) (bottom o).

(** the shape remembers its sketch_1 (faces, number of core faces) and its operations *)
Record lshape : Type := mkShape { sfaces : list nat; ncore : nat; opers : list oper }.

(** LoftedShape.__init__: one operation per face of sketch_1, in sketch order; [fresh f] is the face of
    sketch_2 above face [f] *)
Definition loft_shape (fresh : nat -> nat) (faces : list nat) (n : nat) : lshape :=
  mkShape faces n (map (fun f => mkOper f (fresh f)) faces).

(** * 2. transformations *)
(** Shape.mirror: every operation is mirrored (ids stay) and then inverted; the sketch is not touched *)
Definition shape_mirror (sh : lshape) : lshape := mkShape (sfaces sh) (ncore sh) (map op_invert (opers sh)).

Inductive step : Type :=
| SMove      (* translate / rotate / scale: objects moved in place *)
| SMirror.   (* mirror: operations are inverted too *)

Definition is_mirror (t : step) : bool := match t with SMove => false | SMirror => true end.
Definition do_step (t : step) (sh : lshape) : lshape := match t with SMove => sh | SMirror => shape_mirror sh end.
Fixpoint run (ts : list step) (sh : lshape) : lshape :=
  match ts with [] => sh | t :: ts' => run ts' (do_step t sh) end.
Definition mirrors (ts : list step) : nat := length (filter is_mirror ts).

(** * 3. core and shell *)
Definition memb (r : nat) (l : list nat) : bool := existsb (Nat.eqb r) l.

Definition core_faces (sh : lshape) : list nat := firstn (ncore sh) (sfaces sh).
Definition shell_faces (sh : lshape) : list nat := skipn (ncore sh) (sfaces sh).

(** the library: split by position *)
Definition core_by_position (sh : lshape) : list oper := firstn (ncore sh) (opers sh).
Definition shell_by_position (sh : lshape) : list oper := skipn (ncore sh) (opers sh).

(** the seeded change: the operations whose bottom face IS a core face of sketch_1 *)
Definition core_by_identity (sh : lshape) : list oper :=
  filter (fun o => memb (bottom o) (core_faces sh)) (opers sh).
Definition shell_by_identity (sh : lshape) : list oper :=
  filter (fun o => negb (memb (bottom o) (core_faces sh))) (opers sh).

(** ground truth: the operation stands on (or hangs from) a shell face of the sketch *)
Definition touches_outer (sh : lshape) (o : oper) : bool :=
  memb (bottom o) (shell_faces sh) || memb (top o) (shell_faces sh).

(** * 4. well-formedness of a sketch pair: the faces of sketch_1 are distinct objects and no face of
    sketch_2 is a face of sketch_1 *)
Fixpoint distinctb (l : list nat) : bool :=
  match l with [] => true | x :: t => negb (memb x t) && distinctb t end.
Definition fresh_tops (fresh : nat -> nat) (faces : list nat) : bool :=
  forallb (fun f => negb (memb (fresh f) faces)) faces.

(** * 5. a miniature cylinder: 4 core + 8 shell faces (ids 0..11), the faces of sketch_2 are 12..23 *)
Definition mini_faces : list nat := seq 0 12.
Definition mini_fresh (f : nat) : nat := 12 + f.
Definition mini_cylinder : lshape := loft_shape mini_fresh mini_faces 4.
