(** Spec-level state machine for the addressing calls of an Operation (C10, C06).

    The state says, in terms of the reference hexahedron of Base/Hex.v, which side carries which
    patch / projection, which edge is projected to which geometries and which corner is projected.
    The calls address sides by name and edges/corners by corner numbers.  The correspondence check
    compares this model with the real Operation (observed through Mesh.assemble) on call sequences. *)
From Coq Require Import List Bool Arith.
From CB Require Import Base.Hex.
Import ListNotations.

Inductive call :=
| SetPatch (s : side) (name : nat)
| ProjectSide (s : side) (label : nat) (edges points : bool)
| ProjectEdge (c1 c2 : nat) (label : nat)
| ProjectCorner (c : nat) (label : nat).

Record st := {
  patch : side -> option nat;
  pface : side -> option nat;
  pedge : nat -> nat -> list nat;   (* key: (min, max) of the corner pair; label set *)
  pvert : nat -> list nat           (* labels in the order they were added *)
}.

Definition init : st :=
  {| patch := fun _ => None; pface := fun _ => None; pedge := fun _ _ => []; pvert := fun _ => [] |}.

Definition upd_side (f : side -> option nat) (s : side) (v : nat) : side -> option nat :=
  fun t => if side_eqb s t then Some v else f t.

Definition key (a b : nat) : nat * nat := (Nat.min a b, Nat.max a b).

Definition add_label (l : list nat) (x : nat) : list nat :=
  if existsb (Nat.eqb x) l then l else l ++ [x].

Definition upd_edge (f : nat -> nat -> list nat) (a b : nat) (x : nat) : nat -> nat -> list nat :=
  let '(lo, hi) := key a b in
  fun i j => if (i =? lo) && (j =? hi) then add_label (f i j) x else f i j.

Definition upd_vert (f : nat -> list nat) (c : nat) (x : nat) : nat -> list nat :=
  fun i => if i =? c then f i ++ [x] else f i.

(** the undirected edges of a side, as (lo, hi) pairs *)
Definition all_edges : list (nat * nat) :=
  filter (fun ij => is_edge (fst ij) (snd ij) && (fst ij <? snd ij)) (list_prod corners corners).
Definition side_edges (s : side) : list (nat * nat) :=
  filter (fun ij => on_side s (fst ij) && on_side s (snd ij)) all_edges.

(** projecting an edge to a third geometry is rejected *)
Definition project_edge_st (s : st) (a b x : nat) : option st :=
  if is_edge a b then
    let pe := upd_edge (pedge s) a b x in
    let '(lo, hi) := key a b in
    if 2 <? length (pe lo hi) then None
    else Some {| patch := patch s; pface := pface s; pedge := pe; pvert := pvert s |}
  else None.

Fixpoint project_edges_st (s : st) (es : list (nat * nat)) (x : nat) : option st :=
  match es with
  | [] => Some s
  | (a, b) :: r =>
      match project_edge_st s a b x with
      | Some s' => project_edges_st s' r x
      | None => None
      end
  end.

Definition project_verts_st (s : st) (cs : list nat) (x : nat) : st :=
  fold_left (fun s c => {| patch := patch s; pface := pface s; pedge := pedge s; pvert := upd_vert (pvert s) c x |}) cs s.

Definition step (s : st) (c : call) : option st :=
  match c with
  | SetPatch sd n =>
      Some {| patch := upd_side (patch s) sd n; pface := pface s; pedge := pedge s; pvert := pvert s |}
  | ProjectSide sd l e p =>
      let s1 := {| patch := patch s; pface := upd_side (pface s) sd l; pedge := pedge s; pvert := pvert s |} in
      match (if e then project_edges_st s1 (side_edges sd) l else Some s1) with
      | Some s2 => Some (if p then project_verts_st s2 (side_corners sd) l else s2)
      | None => None
      end
  | ProjectEdge a b l => project_edge_st s a b l
  | ProjectCorner c l =>
      if valid c then Some {| patch := patch s; pface := pface s; pedge := pedge s; pvert := upd_vert (pvert s) c l |}
      else None
  end.

Fixpoint steps (s : st) (cs : list call) : option st :=
  match cs with
  | [] => Some s
  | c :: r => match step s c with Some s' => steps s' r | None => None end
  end.

(** observation, in the canonical form the harness also produces *)
Definition obs := (list (nat * list nat) * list (list nat * nat) * list (nat * nat * list nat) * list (nat * list nat))%type.

Definition observe (s : st) : obs :=
  ( flat_map (fun sd => match patch s sd with Some n => [(n, side_corners sd)] | None => [] end) sides,
    flat_map (fun sd => match pface s sd with Some l => [(side_corners sd, l)] | None => [] end) sides,
    flat_map (fun ij => match pedge s (fst ij) (snd ij) with [] => [] | l => [(fst ij, snd ij, l)] end) all_edges,
    flat_map (fun c => match pvert s c with [] => [] | l => [(c, l)] end) corners ).

Definition run_calls (cs : list call) : option obs :=
  match steps init cs with Some s => Some (observe s) | None => None end.

(** comparison up to order of entries (and of edge labels) *)
Definition list_eqb (l m : list nat) : bool := (length l =? length m) && forallb (fun p => fst p =? snd p) (combine l m).
Definition set_eqb {A} (eqb : A -> A -> bool) (l m : list A) : bool :=
  (length l =? length m) && forallb (fun x => existsb (eqb x) m) l && forallb (fun x => existsb (eqb x) l) m.

Definition obs_eqb (o1 o2 : obs) : bool :=
  let '(p1, f1, e1, v1) := o1 in
  let '(p2, f2, e2, v2) := o2 in
  set_eqb (fun a b => (fst a =? fst b) && list_eqb (snd a) (snd b)) p1 p2
  && set_eqb (fun a b => list_eqb (fst a) (fst b) && (snd a =? snd b)) f1 f2
  && set_eqb (fun a b => (fst (fst a) =? fst (fst b)) && (snd (fst a) =? snd (fst b)) && same_set (snd a) (snd b)) e1 e2
  && set_eqb (fun a b => (fst a =? fst b) && list_eqb (snd a) (snd b)) v1 v2.

Definition obs_opt_eqb (o1 o2 : option obs) : bool :=
  match o1, o2 with
  | Some a, Some b => obs_eqb a b
  | None, None => true
  | _, _ => false
  end.
