(** C11 - topology of a blocking: executable specifications (no proofs).

    A blocking is a list of blocks, a block is the list of its 8 vertex ids in the OpenFOAM corner
    order.  Everything is stated against the reference hexahedron of Base/Hex.v (edges, sides,
    inward/outward winding), never against the library's own tables.

    - [adjb] / [connected]: two block axes (nodes) are adjacent when they share a wire, i.e. an
      unordered pair of vertex ids; a "family" is a connected component (DESIGN Appendix A).
    - [check_cert]: checker of a reachability certificate (parent pointer + depth per node) showing
      that every node is connected to a chopped node (= the documented chop calls are sufficient).
    - [closed_b]: checker of a refutation certificate (a set of nodes closed under adjacency that
      contains no chopped node).
    - [conformal_b], [oriented_b], [face_connected_b], [iface_ok]: conformity, consistent handedness,
      face connectivity, chain interface.
    - [winding_b]: all quads of a sketch have the same combinatorial orientation. *)
From Coq Require Import List Bool Arith NArith Lia.
From CB Require Import Base.Hex.
Import ListNotations.
Open Scope nat_scope.

Definition vid := N.
Definition block := list vid.
Definition node := (nat * nat)%type.          (* block index, axis *)
Definition wire := (vid * vid)%type.          (* unordered: (min, max) *)

Definition node_eqb (n m : node) : bool := (fst n =? fst m) && (snd n =? snd m).
Definition wire_eqb (v w : wire) : bool := N.eqb (fst v) (fst w) && N.eqb (snd v) (snd w).
Definition upair (i j : vid) : wire := (N.min i j, N.max i j).

(** the four positively directed edges of the reference hexahedron along axis [a] (from Hex.v) *)
Definition axis_edges_spec (a : nat) : list (nat * nat) :=
  filter (fun ij => match edge_axis (fst ij) (snd ij) with
                    | Some b => (b =? a) && edge_positive (fst ij) (snd ij)
                    | None => false end) (list_prod corners corners).
Definition axis_edges_tab : list (list (nat * nat)) := Eval vm_compute in map axis_edges_spec axes.
Definition axis_edges (a : nat) : list (nat * nat) := nth a axis_edges_tab [].

Definition vert (b : block) (c : nat) : vid := nth c b 0%N.
Definition wires_of (b : block) (a : nat) : list wire :=
  map (fun ij => upair (vert b (fst ij)) (vert b (snd ij))) (axis_edges a).
Definition wires (bs : list block) (n : node) : list wire := wires_of (nth (fst n) bs []) (snd n).

Definition nodes (bs : list block) : list node := list_prod (seq 0 (length bs)) axes.
Definition node_index (n : node) : nat := 3 * fst n + snd n.
Definition node_of_index (i : nat) : node := (i / 3, i mod 3).
Definition valid_node (bs : list block) (n : node) : bool := (fst n <? length bs) && (snd n <? 3).

Definition adjb (bs : list block) (n m : node) : bool :=
  existsb (fun w => existsb (wire_eqb w) (wires bs m)) (wires bs n).

(** connectivity through shared wires, inside the blocking *)
Inductive connected (bs : list block) : node -> node -> Prop :=
| conn_refl n : connected bs n n
| conn_step n m k : valid_node bs m = true -> adjb bs n m = true -> connected bs m k -> connected bs n k.

Definition memn (n : node) (l : list node) : bool := existsb (node_eqb n) l.

(** * Reachability certificate: for node number i the pair (parent node number, depth).
    A node of depth 0 must be chopped; a node of depth S d must be adjacent to its parent, whose
    depth is d' < S d. *)
Definition cert := list (nat * nat).
Definition check_node (bs : list block) (chopped : list node) (c : cert) (i : nat) : bool :=
  let n := node_of_index i in
  let '(p, d) := nth i c (0, 0) in
  match d with
  | 0 => memn n chopped
  | S _ => (p <? 3 * length bs) && adjb bs n (node_of_index p) && (snd (nth p c (0, 0)) <? d)
  end.
Definition check_cert (bs : list block) (chopped : list node) (c : cert) : bool :=
  (length c =? 3 * length bs) && forallb (check_node bs chopped c) (seq 0 (3 * length bs)).

(** the property the certificate establishes *)
Definition choppable (bs : list block) (chopped : list node) : Prop :=
  forall n, valid_node bs n = true -> exists c, memn c chopped = true /\ connected bs n c.

(** * Refutation certificate: a set closed under adjacency *)
Definition closed_b (bs : list block) (S : list node) : bool :=
  forallb (fun n => negb (memn n S) ||
                    forallb (fun m => negb (adjb bs n m) || memn m S) (nodes bs)) (nodes bs).

(** * Conformity *)
Definition memv (v : vid) (b : block) : bool := existsb (N.eqb v) b.
Fixpoint nodupv (l : list vid) : bool :=
  match l with [] => true | x :: r => negb (memv x r) && nodupv r end.
Definition block_ok (b : block) : bool := (length b =? 8) && nodupv b.

(** local corners of [a] whose vertex also belongs to [b] *)
Definition shared_corners (a b : block) : list nat := filter (fun c => memv (vert a c) b) corners.
(** the corner of [b] carrying vertex [v] *)
Definition corner_of (b : block) (v : vid) : nat :=
  match filter (fun c => N.eqb (vert b c) v) corners with c :: _ => c | [] => 8 end.

Definition is_side_set (l : list nat) : bool := existsb (fun s => same_set l (side_corners s)) sides.
Definition corner_set_ok (l : list nat) : bool :=
  match l with
  | [] => true
  | [_] => true
  | [c; d] => is_edge c d
  | [_; _; _; _] => is_side_set l
  | _ => false
  end.

(** two blocks meet in nothing, a corner, a full edge of both or a full side of both, and the
    identification of corners maps hexahedron edges to hexahedron edges (no twisted / diagonal gluing) *)
Definition pair_conformal (a b : block) : bool :=
  let sa := shared_corners a b in
  let sb := shared_corners b a in
  corner_set_ok sa && corner_set_ok sb && (length sa =? length sb)
  && forallb (fun c => forallb (fun d =>
        Bool.eqb (is_edge c d) (is_edge (corner_of b (vert a c)) (corner_of b (vert a d)))) sa) sa.

Fixpoint all_pairs {A} (f : A -> A -> bool) (l : list A) : bool :=
  match l with
  | [] => true
  | x :: r => forallb (f x) r && all_pairs f r
  end.
Definition conformal_b (bs : list block) : bool := forallb block_ok bs && all_pairs pair_conformal bs.

(** * Consistent handedness: where two blocks share a side, the cycle that is outward for the one is
    inward for the other *)
Definition outward_cycle (s : side) : list nat :=
  match s with
  | Bottom => [0; 3; 2; 1] | Top => [4; 5; 6; 7]
  | Left => [0; 4; 7; 3] | Right => [1; 2; 6; 5]
  | Front => [0; 1; 5; 4] | Back => [3; 7; 6; 2]
  end.
Definition side_of_set (l : list nat) : option side := find (fun s => same_set l (side_corners s)) sides.
Definition pair_oriented (a b : block) : bool :=
  let sa := shared_corners a b in
  match sa with
  | [_; _; _; _] =>
      match side_of_set sa, side_of_set (shared_corners b a) with
      | Some s, Some t => is_inward t (map (fun c => corner_of b (vert a c)) (outward_cycle s))
      | _, _ => false
      end
  | _ => true
  end.
Definition oriented_b (bs : list block) : bool := all_pairs pair_oriented bs.

(** * Face connectivity (reachability from block 0 through shared sides) *)
Definition shares_side (a b : block) : bool := length (shared_corners a b) =? 4.
Definition face_nbrs (bs : list block) : list (list nat) :=
  map (fun a => filter (fun j => shares_side a (nth j bs [])) (seq 0 (length bs))) bs.
Definition memi (i : nat) (l : list nat) : bool := existsb (Nat.eqb i) l.
Definition fgrow (nb : list (list nat)) (n : nat) (R : list nat) : list nat :=
  filter (fun j => memi j R || existsb (fun i => memi i R) (nth j nb [])) (seq 0 n).
(** [fgrow] only adds indexes, so an iteration that does not lengthen the list has reached the fixed
    point: stop there (at most [fuel] = number of blocks rounds are ever needed) *)
Fixpoint freach (nb : list (list nat)) (n fuel : nat) (R : list nat) : list nat :=
  match fuel with
  | 0 => R
  | S f => let R' := fgrow nb n R in if length R' =? length R then R else freach nb n f R'
  end.
Definition face_connected_b (bs : list block) : bool :=
  match bs with
  | [] => true
  | _ => length (freach (face_nbrs bs) (length bs) (length bs) [0]) =? length bs
  end.

(** what [face_connected_b] establishes (Proofs/C11_Topo.v, [face_connected_sound]): every block is
    reached from block 0 through a chain of blocks sharing four vertices *)
Inductive freachable (bs : list block) : nat -> Prop :=
| fr_root : 0 < length bs -> freachable bs 0
| fr_step i j : freachable bs i -> j < length bs ->
    shares_side (nth j bs []) (nth i bs []) = true -> freachable bs j.

(** * Vertex count *)
Definition all_vids (bs : list block) : list vid := concat bs.
Definition vids_below (bs : list block) (n : nat) : bool := forallb (fun v => N.ltb v (N.of_nat n)) (all_vids bs).
Definition every_vid_used (bs : list block) (n : nat) : bool :=
  forallb (fun i => memv (N.of_nat i) (all_vids bs)) (seq 0 n).

(** * Chain interface: the vertices shared by the two shapes (given as block index lists [bi], [bj])
    are exactly the vertices on side [sa] of the blocks [fa] and exactly those on side [sb] of [fb] *)
Definition iface := (list nat * side * list nat * side * list nat * list nat)%type.
Definition vids_of (bs : list block) (idx : list nat) : list vid := concat (map (fun i => nth i bs []) idx).
Definition side_vids (bs : list block) (idx : list nat) (s : side) : list vid :=
  concat (map (fun i => map (vert (nth i bs [])) (side_corners s)) idx).
Definition subsetv (l m : list vid) : bool := forallb (fun v => memv v m) l.
Definition same_vset (l m : list vid) : bool := subsetv l m && subsetv m l.
Fixpoint dedupv (l : list vid) : list vid :=
  match l with [] => [] | x :: r => if memv x r then dedupv r else x :: dedupv r end.
Definition shared_vids (bs : list block) (bi bj : list nat) : list vid :=
  dedupv (filter (fun v => memv v (vids_of bs bj)) (vids_of bs bi)).
Definition iface_ok (bs : list block) (f : iface) (expected : nat) : bool :=
  let '(fa, sa, fb, sb, bi, bj) := f in
  let sh := shared_vids bs bi bj in
  (length sh =? expected) && same_vset sh (side_vids bs fa sa) && same_vset sh (side_vids bs fb sb).

(** * Sketch winding: no directed edge is used twice (so every interior edge is traversed in opposite
    directions by its two quads), quads are 4 distinct points *)
Definition dir_edges (q : list nat) : list (nat * nat) :=
  match q with [a; b; c; d] => [(a, b); (b, c); (c, d); (d, a)] | _ => [] end.
Definition pair_nat_eqb (p q : nat * nat) : bool := (fst p =? fst q) && (snd p =? snd q).
Fixpoint nodup_pairs (l : list (nat * nat)) : bool :=
  match l with [] => true | x :: r => negb (existsb (pair_nat_eqb x) r) && nodup_pairs r end.
Definition winding_b (quads : list (list nat)) : bool :=
  forallb (fun q => (length q =? 4) && nodupb q) quads && nodup_pairs (concat (map dir_edges quads)).
(** an edge used by two quads is interior; count of undirected uses is at most 2 *)
Definition undirected_uses (quads : list (list nat)) (e : nat * nat) : nat :=
  length (filter (fun f => pair_nat_eqb f e || pair_nat_eqb f (snd e, fst e)) (concat (map dir_edges quads))).
Definition manifold_b (quads : list (list nat)) : bool :=
  forallb (fun e => undirected_uses quads e <=? 2) (concat (map dir_edges quads)).

(** * Expected vertex counts (closed forms, DESIGN C11_conformal) *)
Inductive kind :=
| KOp                       (* a single operation *)
| KLofted (points : nat)    (* shape lofted between two copies of a sketch with [points] distinct points *)
| KRing (segments : nat)
| KStackGrid (nx ny rep : nat)
| KStackSketch (points rep : nat)
| KHemisphere
| KJoint (branches : nat)
| KGiven (n : nat)          (* shells, chains: sum of the parts minus the interfaces, computed by the recipe *).
Definition expected_vertices (k : kind) : nat :=
  match k with
  | KOp => 8
  | KLofted p => 2 * p
  | KRing n => 4 * n
  | KStackGrid nx ny rep => (nx + 1) * (ny + 1) * (rep + 1)
  | KStackSketch p rep => p * (rep + 1)
  | KHemisphere => 35
  | KJoint b => 23 * b + 5
  | KGiven n => n
  end.

Record shape_tab := {
  st_id : nat;
  st_kind : kind;
  st_blocks : list block;
  st_chopped : list node;
  st_cert : cert;
  st_nverts : nat;
  st_ifaces : list (iface * nat)
}.

Definition tab_conformal (t : shape_tab) : bool :=
  conformal_b (st_blocks t) && face_connected_b (st_blocks t)
  && (st_nverts t =? expected_vertices (st_kind t))
  && vids_below (st_blocks t) (st_nverts t) && every_vid_used (st_blocks t) (st_nverts t).
Definition tab_oriented (t : shape_tab) : bool := oriented_b (st_blocks t).
Definition tab_choppable (t : shape_tab) : bool := check_cert (st_blocks t) (st_chopped t) (st_cert t).
Definition tab_ifaces (t : shape_tab) : bool :=
  forallb (fun fe => iface_ok (st_blocks t) (fst fe) (snd fe)) (st_ifaces t).

(** comparison of a blocking observed at another placement with the tabulated one *)
Definition block_eqb (a b : block) : bool :=
  (length a =? length b) && forallb (fun p => N.eqb (fst p) (snd p)) (combine a b).
Definition blocks_eqb (x y : list block) : bool :=
  (length x =? length y) && forallb (fun p => block_eqb (fst p) (snd p)) (combine x y).
Definition nodes_eqb (x y : list node) : bool :=
  (length x =? length y) && forallb (fun p => node_eqb (fst p) (snd p)) (combine x y).
