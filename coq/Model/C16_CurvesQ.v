(** C16 - the rational (binary64 values are exact rationals) evaluators of the curve model, used by the
    correspondence with [vm_compute] (no proofs in this file).

    Everything that is piecewise linear in Model/C16_Curves.v (linspace, linear interpolation, line curve, knots
    between two parameters, slices of a discrete curve, argmin) is rational arithmetic and is re-stated here over
    [Q] with boolean decisions; square roots (distances, polyline lengths, chord-length parameters) are enclosed
    between two rationals computed with the integer square root [Z.sqrt].  Proofs/C16_QSound.v shows that these
    evaluators compute (enclosures of) the real-valued model of Model/C16_Curves.v on the images [Q2R] of their
    inputs. *)
From Coq Require Import QArith ZArith List Bool Arith Floats.
Import ListNotations.
Open Scope Q_scope.

(** exact value of a binary64 literal (the harness writes every number of a case as a primitive float in
    hexadecimal notation, [Prim2SF] gives its sign, mantissa and exponent); infinities and NaN do not occur *)
Definition fq (f : float) : Q :=
  match Prim2SF f with
  | S754_finite s m e =>
      let v := if (0 <=? e)%Z then (Zpos m * 2 ^ e)%Z # 1 else Zpos m # (Pos.pow 2 (Z.to_pos (- e))) in
      Qred (if s then Qopp v else v)
  | _ => 0
  end.
Arguments fq _%float.

Definition qvec := (Q * Q * Q)%type.
Definition qx (v : qvec) : Q := fst (fst v).
Definition qy (v : qvec) : Q := snd (fst v).
Definition qz (v : qvec) : Q := snd v.
Definition qvzero : qvec := (0, 0, 0).
Definition qvadd (a b : qvec) : qvec := (qx a + qx b, qy a + qy b, qz a + qz b).
Definition qvsub (a b : qvec) : qvec := (qx a - qx b, qy a - qy b, qz a - qz b).
Definition qvscale (k : Q) (a : qvec) : qvec := (k * qx a, k * qy a, k * qz a).
Definition qvred (a : qvec) : qvec := (Qred (qx a), Qred (qy a), Qred (qz a)).
Definition qdot (a b : qvec) : Q := qx a * qx b + qy a * qy b + qz a * qz b.
Definition qn2 (a : qvec) : Q := qdot a a.
Definition qd2 (p q : qvec) : Q :=
  let d := qvred (qvsub p q) in Qred (Qred (qx d * qx d + qy d * qy d) + qz d * qz d).

Definition qlt_bool (a b : Q) : bool := negb (Qle_bool b a).
Definition qmin (a b : Q) : Q := if Qle_bool a b then a else b.
Definition qmax (a b : Q) : Q := if Qle_bool a b then b else a.
Definition qabs_le (x tol : Q) : bool := Qle_bool (- tol) x && Qle_bool x tol.

(** ** enclosure of the real square root: [fst (qsqrt_encl x) <= sqrt x <= snd (qsqrt_encl x)], computed with the
    integer square root; relative width <= 2^-64 *)
Definition sqK : positive := Pos.pow 2 64.
Definition qsqrt_encl (x : Q) : Q * Q :=
  let x := Qred x in
  if (Qnum x <=? 0)%Z then (0, 0)
  else let s := Z.sqrt (Qnum x * Zpos (Qden x) * Zpos (sqK * sqK)) in
       (s # (Qden x * sqK), (s + 1) # (Qden x * sqK)).
Definition qsqrt_lo (x : Q) : Q := fst (qsqrt_encl x).
Definition qsqrt_hi (x : Q) : Q := snd (qsqrt_encl x).
Definition qdist_encl (p q : qvec) : Q * Q := qsqrt_encl (qd2 p q).
Definition qdist_lo (p q : qvec) : Q := fst (qdist_encl p q).
Definition qdist_hi (p q : qvec) : Q := snd (qdist_encl p q).
Definition qpair_add (a b : Q * Q) : Q * Q := (Qred (fst a + fst b), Qred (snd a + snd b)).

(** enclosure of [polylen] *)
Fixpoint qpolylen_encl (l : list qvec) : Q * Q :=
  match l with
  | [] => (0, 0)
  | a :: t => match t with [] => (0, 0) | b :: _ => qpair_add (qdist_encl a b) (qpolylen_encl t) end
  end.
Definition qpolylen_lo (l : list qvec) : Q := fst (qpolylen_encl l).
Definition qpolylen_hi (l : list qvec) : Q := snd (qpolylen_encl l).
(** the value [L] returned by the implementation is within [tol] of the polyline length of [l] *)
Definition qlen_ok (tol : Q) (l : list qvec) (L : Q) : bool :=
  let e := qpolylen_encl l in
  (2 <=? length l)%nat && Qle_bool (L - tol) (fst e) && Qle_bool (snd e) (L + tol).

(** fast path for long lists (the 100 points of AnalyticCurve.get_length): all coordinates are brought to the
    common denominator [D] (the least common multiple of their denominators, a power of two for binary64 data),
    the squared distances are integers and one integer square root per segment gives
    [s_i / (K D) <= dist < (s_i + 1) / (K D)] *)
Definition zvec := (Z * Z * Z)%type.
Definition plcm (a b : positive) : positive := Z.to_pos (Z.lcm (Zpos a) (Zpos b)).
Definition qv_den (v : qvec) : positive := plcm (Qden (qx v)) (plcm (Qden (qy v)) (Qden (qz v))).
Definition qcommon_den (l : list qvec) : positive := fold_right (fun v D => plcm (qv_den v) D) 1%positive l.
Definition qscale (D : positive) (q : Q) : Z := (Qnum q * (Zpos D / Zpos (Qden q)))%Z.
Definition qvscale_z (D : positive) (v : qvec) : zvec := (qscale D (qx v), qscale D (qy v), qscale D (qz v)).
Definition zd2 (a b : zvec) : Z :=
  let dx := (fst (fst a) - fst (fst b))%Z in
  let dy := (snd (fst a) - snd (fst b))%Z in
  let dz := (snd a - snd b)%Z in (dx * dx + dy * dy + dz * dz)%Z.
Definition zK : positive := Pos.pow 2 40.
(** (sum of the integer square roots of [zd2 * K^2], number of segments) *)
Fixpoint zsum_sqrt (l : list zvec) : Z * Z :=
  match l with
  | [] => (0, 0)%Z
  | a :: t => match t with
              | [] => (0, 0)%Z
              | b :: _ => let r := zsum_sqrt t in
                          (Z.sqrt (zd2 a b * Zpos (zK * zK)) + fst r, 1 + snd r)%Z
              end
  end.
Definition qpolylen_encl_cd (l : list qvec) : Q * Q :=
  let D := qcommon_den l in
  let r := zsum_sqrt (map (qvscale_z D) l) in
  (fst r # (D * zK), (fst r + snd r) # (D * zK)).
Definition qlen_ok_cd (tol : Q) (l : list qvec) (L : Q) : bool :=
  let e := qpolylen_encl_cd l in
  (2 <=? length l)%nat && Qle_bool (L - tol) (fst e) && Qle_bool (snd e) (L + tol).

(** ** comparison of point lists *)
Definition qclose_v (tol : Q) (p q : qvec) : bool := Qle_bool (qd2 p q) (tol * tol).
Fixpoint qclose_list (tol : Q) (l m : list qvec) : bool :=
  match l, m with
  | [], [] => true
  | a :: l', b :: m' => qclose_v tol a b && qclose_list tol l' m'
  | _, _ => false
  end.
Fixpoint qclose_rlist (tol : Q) (l m : list Q) : bool :=
  match l, m with
  | [], [] => true
  | a :: l', b :: m' => qabs_le (a - b) tol && qclose_rlist tol l' m'
  | _, _ => false
  end.

(** ** numpy.linspace *)
Definition qlin_at (a b : Q) (n i : nat) : Q :=
  Qred (a + inject_Z (Z.of_nat i) * ((b - a) / inject_Z (Z.of_nat (n - 1)))).
Definition qlinspace (a b : Q) (n : nat) : list Q := map (qlin_at a b n) (seq 0 n).

(** ** argmin (first index of the smallest entry); distances are compared through their squares *)
Fixpoint qargmin_aux (ds : list Q) (i best : nat) (bv : Q) : nat :=
  match ds with
  | [] => best
  | d :: t => if qlt_bool d bv then qargmin_aux t (S i) i d else qargmin_aux t (S i) best bv
  end.
Definition qargmin (ds : list Q) : nat := match ds with [] => O | d :: t => qargmin_aux t 1%nat O d end.
Definition qclosest_idx (pts : list qvec) (q : qvec) : nat := qargmin (map (fun p => qd2 p q) pts).

(** argsort (stable) and the indices of the first [ns] coarse samples, see [argsort] / [fc_starts] *)
Fixpoint qinsert_idx (d : nat -> Q) (k : nat) (l : list nat) : list nat :=
  match l with
  | [] => [k]
  | j :: t => if Qle_bool (d k) (d j) then k :: l else j :: qinsert_idx d k t
  end.
Definition qargsort (ds : list Q) : list nat :=
  fold_right (qinsert_idx (fun i => nth i ds 0)) [] (seq 0 (length ds)).
Definition qstart_idxs (pts : list qvec) (q : qvec) (ns : nat) : list nat :=
  firstn ns (qargsort (map (fun p => qd2 p q) pts)).
Fixpoint nat_list_eqb (l m : list nat) : bool :=
  match l, m with
  | [], [] => true
  | a :: l', b :: m' => Nat.eqb a b && nat_list_eqb l' m'
  | _, _ => false
  end.

(** ** discrete curve (the list functions [slice], [dc_discretize], [interior] of Model/C16_Curves.v are polymorphic
    and used as they are) *)
Definition qdc_point (pts : list qvec) (i : nat) : qvec := nth i pts qvzero.

(** ** line curve *)
Definition qline_point (p1 p2 : qvec) (t : Q) : qvec := qvred (qvadd p1 (qvscale t (qvsub p2 p1))).
Definition qclamp (lo hi x : Q) : Q := qmax lo (qmin hi x).
Definition qline_topt (p1 p2 : qvec) (lo hi : Q) (q : qvec) : Q :=
  qclamp lo hi (qdot (qvsub q p1) (qvsub p2 p1) / qn2 (qvsub p2 p1)).

(** ** linear interpolation (scipy interp1d, kind=linear) *)
Definition qseg_point (t0 t1 : Q) (p0 p1 : qvec) (t : Q) : qvec :=
  qvred (qvadd p0 (qvscale ((t - t0) / (t1 - t0)) (qvsub p1 p0))).
Fixpoint qlin_point (ts : list Q) (ps : list qvec) (t : Q) : qvec :=
  match ts, ps with
  | t0 :: ts', p0 :: ps' =>
      match ts', ps' with
      | t1 :: ts'', p1 :: _ =>
          match ts'' with
          | [] => qseg_point t0 t1 p0 p1 t
          | _ :: _ => if Qle_bool t t1 then qseg_point t0 t1 p0 p1 t else qlin_point ts' ps' t
          end
      | _, _ => p0
      end
  | _, _ => qvzero
  end.

(** InterpolatorBase.params: enclosures of the cumulative chord lengths, then division by the total *)
Fixpoint qcum_encl (acc : Q * Q) (l : list qvec) : list (Q * Q) :=
  match l with
  | [] => []
  | a :: t => match t with
              | [] => []
              | b :: _ => let c := qpair_add acc (qdist_encl a b) in c :: qcum_encl c t
              end
  end.
Fixpoint qparams_in (tol tlo thi : Q) (cs : list (Q * Q)) (ts : list Q) : bool :=
  match cs, ts with
  | [], [] => true
  | c :: cs', t :: ts' =>
      Qle_bool (fst c / thi - tol) t && Qle_bool t (snd c / tlo + tol) && qparams_in tol tlo thi cs' ts'
  | _, _ => false
  end.
(** [ts] is within [tol] of [chord_params pts] *)
Definition qchord_ok (tol : Q) (pts : list qvec) (ts : list Q) : bool :=
  match ts with
  | [] => false
  | t0 :: ts' =>
      let cs := qcum_encl (0, 0) pts in
      let tot := last cs (0, 0) in
      qabs_le t0 tol && qlt_bool 0 (fst tot) && qparams_in tol (fst tot) (snd tot) cs ts'
  end.

(** ** InterpolatedCurveBase.get_length (repaired): the parameters whose points are joined *)
Definition qbetween (lo hi t : Q) : bool := qlt_bool lo t && qlt_bool t hi.
Definition qil_params (ts : list Q) (lo hi : Q) : list Q := lo :: filter (qbetween lo hi) ts ++ [hi].
Definition qil_points (f : Q -> qvec) (ts : list Q) (a b : Q) : list qvec :=
  map f (qil_params ts (qmin a b) (qmax a b)).
(** the same for a black-box curve: [xa], [xb] are the observed values at the two parameters, [fk] at the knots *)
Definition qil_points_bb (xlo xhi : qvec) (ts : list Q) (fk : list qvec) (lo hi : Q) : list qvec :=
  xlo :: map snd (filter (fun tp => qbetween lo hi (fst tp)) (combine ts fk)) ++ [xhi].

(** ** optimality certificates *)
(** squared distance from [q] to the segment [p0, p1] *)
Definition qseg_mind2 (p0 p1 q : qvec) : Q :=
  let n2 := qn2 (qvsub p1 p0) in
  let s := if Qle_bool n2 0 then 0 else qclamp 0 1 (qdot (qvsub q p0) (qvsub p1 p0) / n2) in
  qd2 (qvadd p0 (qvscale s (qvsub p1 p0))) q.
Fixpoint qpl_mind2 (l : list qvec) (q : qvec) : option Q :=
  match l with
  | [] => None
  | a :: t =>
      match t with
      | [] => None
      | b :: _ => match qpl_mind2 t q with
                  | None => Some (qseg_mind2 a b q)
                  | Some m => Some (qmin (qseg_mind2 a b q) m)
                  end
      end
  end.
(** the point [x] is not farther from [q] than [sqrt m2 + tol] *)
Definition qnot_farther (tol : Q) (x q : qvec) (m2 : Q) : bool :=
  Qle_bool (qdist_hi x q) (qsqrt_lo m2 + tol).
