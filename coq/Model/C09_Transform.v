(** C09 - executable model of the transformation machinery (no proofs here).

    Transcribed from /repo/src/classy_blocks (tree with the fixes C09-1 .. C09-9 applied):
      util/functions.py      unit_vector, rotation_matrix, rotate, scale, mirror_matrix, mirror,
                             divide_arc/arc_mid, polyline_length
      construct/point.py     Point.translate/rotate/scale/mirror
      construct/array.py     Array.translate/rotate/scale/mirror   (row-wise)
      construct/edges.py     Angle.translate/rotate/scale/mirror/reverse   (direction quantity)
      base/element.py        ElementBase.translate/rotate/scale/mirror (delegation to parts), transform (= the method calls)
      construct/operations/operation.py   Operation.mirror / invert / transform (a listed Mirror does not invert)
      items/edges/arcs/angle.py  arc_from_theta;  items/edges/arcs/origin.py arc_from_origin (equidistant branch)

    [scipy.linalg.expm] of a skew matrix is modelled by Rodrigues' formula (trusted, validated numerically by
    the interval correspondence of every rotate leaf). *)
From Coq Require Import Reals List Bool Arith.
From CB Require Import Base.Vec3.
Import ListNotations.
Open Scope R_scope.

(** * 1. leaves *)

(** functions.unit_vector: vect / norm(vect) *)
Definition unitv (a : vec) : vec := vscale (/ norm a) a.

(** rotation_matrix(axis, theta) @ v  with  expm(cross(eye(3), axis/|axis|*theta)) = Rodrigues *)
Definition rodrigues (u : vec) (c s : R) (v : vec) : vec :=
  vadd (vadd (vscale c v) (vscale s (cross u v))) (vscale ((1 - c) * dot u v) u).
Definition rot_matrix_apply (axis : vec) (th : R) (v : vec) : vec :=
  rodrigues (unitv axis) (cos th) (sin th) v.

(** functions.rotate(point, angle, axis, origin) = R (point - origin) + origin *)
Definition f_rotate (p : vec) (th : R) (axis o : vec) : vec :=
  vadd (rot_matrix_apply axis th (vsub p o)) o.
(** Point.rotate: f.rotate(self.position, angle, f.unit_vector(axis), origin) *)
Definition pt_rotate (p : vec) (th : R) (axis o : vec) : vec := f_rotate p th (unitv axis) o.
(** Array.rotate, one row of  np.dot(points - origin, matrix.T) + origin *)
Definition arr_rotate_row (p : vec) (th : R) (axis o : vec) : vec :=
  vadd (rot_matrix_apply axis th (vsub p o)) o.

(** functions.scale / Point.scale / Array.scale: origin + (point - origin) * ratio *)
Definition f_scale (p : vec) (r : R) (o : vec) : vec := vadd o (vscale r (vsub p o)).

(** mirror_matrix(n) (entries as written) applied as  v . M  (functions.mirror)  *)
Definition mirror_vM (n v : vec) : vec :=
  let nx := vx n in let ny := vy n in let nz := vz n in
  (vx v * (1 - 2 * (nx * nx)) + vy v * (- 2 * nx * ny) + vz v * (- 2 * nx * nz),
   vx v * (- 2 * nx * ny) + vy v * (1 - 2 * (ny * ny)) + vz v * (- 2 * ny * nz),
   vx v * (- 2 * nx * nz) + vy v * (- 2 * ny * nz) + vz v * (1 - 2 * (nz * nz))).
(** ... and as  v . M^T  (Array.mirror: np.dot(points - origin, matrix.T)) *)
Definition mirror_vMT (n v : vec) : vec :=
  let nx := vx n in let ny := vy n in let nz := vz n in
  (vx v * (1 - 2 * (nx * nx)) + vy v * (- 2 * nx * ny) + vz v * (- 2 * nx * nz),
   vx v * (- 2 * nx * ny) + vy v * (1 - 2 * (ny * ny)) + vz v * (- 2 * ny * nz),
   vx v * (- 2 * nx * nz) + vy v * (- 2 * ny * nz) + vz v * (1 - 2 * (nz * nz))).

(** functions.mirror(point, normal, origin): normal = unit_vector(normal); (point - origin).M + origin *)
Definition f_mirror (p n o : vec) : vec := vadd (mirror_vM (unitv n) (vsub p o)) o.
(** Array.mirror, one row: normal = unit_vector(normal); (points - origin).M^T + origin *)
Definition arr_mirror_row (p n o : vec) : vec := vadd (mirror_vMT (unitv n) (vsub p o)) o.

(** * 2. transformations and what a leaf does with them *)
Inductive tf : Type :=
| TTranslate (d : vec)
| TRotate (th : R) (axis o : vec)
| TScale (r : R) (o : vec)
| TMirror (n o : vec).

Inductive tkind := KTranslate | KRotate | KScale | KMirror.
Definition kind_of (t : tf) : tkind :=
  match t with TTranslate _ => KTranslate | TRotate _ _ _ => KRotate | TScale _ _ => KScale | TMirror _ _ => KMirror end.

(** Point.translate/rotate/scale/mirror *)
Definition leaf_point (t : tf) (p : vec) : vec :=
  match t with
  | TTranslate d => vadd p d
  | TRotate th a o => pt_rotate p th a o
  | TScale r o => f_scale p r o
  | TMirror n o => f_mirror p n o
  end.
(** Array.translate/rotate/scale/mirror on one row *)
Definition leaf_row (t : tf) (p : vec) : vec :=
  match t with
  | TTranslate d => vadd p d
  | TRotate th a o => arr_rotate_row p th a o
  | TScale r o => f_scale p r o
  | TMirror n o => arr_mirror_row p n o
  end.

Definition zero_origin (t : tf) : tf :=
  match t with
  | TTranslate d => TTranslate d
  | TRotate th a _ => TRotate th a vzero
  | TScale r _ => TScale r vzero
  | TMirror n _ => TMirror n vzero
  end.

(** * 3. the heap graph of an entity *)
Inductive cell := CPoint (p : vec) | CArray (l : list vec).
Definition heap := nat -> cell.
Definition upd (h : heap) (i : nat) (c : cell) : heap := fun j => if Nat.eqb j i then c else h j.

(** what a leaf object is used for *)
Inductive role := RPos | RArr | RAxis.

(** one call received by a leaf object:
    VGiven: the transformation as passed down; VZero: the same with the origin replaced by (0,0,0);
    VNeg: scale(-1, (0,0,0));  VRev: the rows of an array are reversed (not a method call);
    VSense: the scalar angle of an Angle changes sign (not a method call; the axis vector keeps its value) *)
Inductive vop := VGiven | VZero | VNeg | VRev | VSense.

Definition apply_vop (t : tf) (o : vop) (c : cell) : cell :=
  match o, c with
  | VGiven, CPoint p => CPoint (leaf_point t p)
  | VGiven, CArray l => CArray (map (leaf_row t) l)
  | VZero, CPoint p => CPoint (leaf_point (zero_origin t) p)
  | VZero, CArray l => CArray (map (leaf_row (zero_origin t)) l)
  | VNeg, CPoint p => CPoint (f_scale p (-1) vzero)
  | VNeg, CArray l => CArray (map (fun p => f_scale p (-1) vzero) l)
  | VRev, CArray l => CArray (rev l)
  | VRev, CPoint p => CPoint p
  | VSense, c => c
  end.

Definition visit := (nat * vop)%type.
Definition run_visit (t : tf) (h : heap) (v : visit) : heap := upd h (fst v) (apply_vop t (snd v) (h (fst v))).
Definition run_visits (t : tf) (vs : list visit) (h : heap) : heap := fold_left (run_visit t) vs h.

(** Point/Vector/Vertex -> NPoint, Array -> NArray, Angle -> NAngle (id of its axis vector),
    Operation -> NOper bottom top sides, every other ElementBase -> NGroup parts *)
Inductive node :=
| NPoint (id : nat)
| NArray (id : nat)
| NAngle (id : nat)
| NGroup (l : list node)
| NOper (b t : node) (s : list node).

(** leaves in the order in which `parts` is walked *)
Fixpoint leaves (n : node) : list (role * nat) :=
  match n with
  | NPoint i => [(RPos, i)]
  | NArray i => [(RArr, i)]
  | NAngle i => [(RAxis, i)]
  | NGroup l => (fix go (l : list node) := match l with [] => [] | x :: r => leaves x ++ go r end) l
  | NOper b t s => leaves b ++ leaves t ++ (fix go (l : list node) := match l with [] => [] | x :: r => leaves x ++ go r end) s
  end.

(** calls a leaf receives when the transformation reaches it through `parts`.
    Angle.translate / Angle.scale do nothing; Angle.rotate turns the axis about the zero origin;
    Angle.mirror reflects it about the zero origin and flips it (axial vector). *)
Definition leaf_visits (k : tkind) (rl : role * nat) : list visit :=
  match fst rl with
  | RPos | RArr => [(snd rl, VGiven)]
  | RAxis => match k with
             | KTranslate | KScale => []
             | KRotate => [(snd rl, VZero)]
             | KMirror => [(snd rl, VZero); (snd rl, VNeg)]
             end
  end.

Definition visits (k : tkind) (n : node) : list visit := flat_map (leaf_visits k) (leaves n).

(** Operation.invert: the side edges are reversed (EdgeData.reverse: Angle: sign of the angle flipped;
    Spline/PolyLine: rows reversed) *)
Definition reverse_visits (n : node) : list visit :=
  flat_map (fun rl : role * nat => match fst rl with RAxis => [(snd rl, VSense)] | RArr => [(snd rl, VRev)] | RPos => [] end) (leaves n).

(** Operation.mirror = ElementBase.mirror ; invert.   Every operation met on the way down uses its own
    [mirror] (a shape, stack or assembly delegates to its parts' methods). *)
Definition sides_reverse_visits (s : list node) : list visit :=
  (fix go (l : list node) := match l with [] => [] | x :: r => reverse_visits x ++ go r end) s.

(** entity.translate/rotate/scale/mirror(...)  (method call on the entity itself) *)
Fixpoint method_visits (k : tkind) (n : node) : list visit :=
  match n with
  | NOper b t s => visits k n ++ match k with KMirror => sides_reverse_visits s | _ => [] end
  | NGroup l => (fix go (l : list node) := match l with [] => [] | x :: r => method_visits k x ++ go r end) l
  | x => visits k x
  end.
Fixpoint swap_tree (n : node) : node :=
  match n with
  | NOper b t s => NOper t b s
  | NGroup l => NGroup (map swap_tree l)
  | x => x
  end.
Definition method_tree (k : tkind) (n : node) : node :=
  match k with KMirror => swap_tree n | _ => n end.

(** entity.transform([t]) (tree with fix C09-9): every list item is the respective method call on the entity itself,
    so the entity's own overrides (Angle.translate/rotate/scale/mirror, CircleCurve.mirror, SplineRound.scale, the
    mirror of an operation inside a shape) are used exactly as by a method call.  One exception is pinned by the
    library's tests: Operation.transform([... Mirror ...]) on the operation itself mirrors its parts but does not
    invert it (no face swap, no side-edge reversal); operations met further down still use Operation.mirror. *)
Definition list_visits (k : tkind) (n : node) : list visit :=
  match n with
  | NOper _ _ _ => visits k n
  | x => method_visits k x
  end.
Definition list_tree (k : tkind) (n : node) : node :=
  match n with
  | NOper _ _ _ => n
  | x => method_tree k x
  end.

(** a sequence of method calls (meth = true) or one transformation list (meth = false) *)
Fixpoint run_kinds (meth : bool) (ks : list tkind) (n : node) : list visit * node :=
  match ks with
  | [] => ([], n)
  | k :: r =>
      let vs := if meth then method_visits k n else list_visits k n in
      let n' := if meth then method_tree k n else list_tree k n in
      let '(vs', n'') := run_kinds meth r n' in (vs ++ vs', n'')
  end.

(** comparison helpers for the correspondence (the implementation's call log carries no VRev) *)
Definition vop_code (o : vop) : nat := match o with VGiven => 0 | VZero => 1 | VNeg => 2 | VRev => 3 | VSense => 4 end.
Definition observable (v : visit) : bool := Nat.ltb (vop_code (snd v)) 3.
Definition visit_codes (vs : list visit) : list (nat * nat) :=
  map (fun v : visit => (fst v, vop_code (snd v))) (filter observable vs).
Fixpoint codes_eqb (a b : list (nat * nat)) : bool :=
  match a, b with
  | [], [] => true
  | (i, o) :: a', (j, p) :: b' => Nat.eqb i j && Nat.eqb o p && codes_eqb a' b'
  | _, _ => false
  end.
Fixpoint node_eqb (a b : node) {struct a} : bool :=
  match a, b with
  | NPoint i, NPoint j => Nat.eqb i j
  | NArray i, NArray j => Nat.eqb i j
  | NAngle i, NAngle j => Nat.eqb i j
  | NGroup l, NGroup m =>
      (fix go (l m : list node) := match l, m with [] , [] => true | x :: l', y :: m' => node_eqb x y && go l' m' | _, _ => false end) l m
  | NOper b t s, NOper b' t' s' =>
      node_eqb b b' && node_eqb t t' &&
      (fix go (l m : list node) := match l, m with [] , [] => true | x :: l', y :: m' => node_eqb x y && go l' m' | _, _ => false end) s s'
  | _, _ => false
  end.
Fixpoint nodup_nat (l : list nat) : bool :=
  match l with [] => true | x :: r => negb (existsb (Nat.eqb x) r) && nodup_nat r end.
Definition alias_free (n : node) : bool := nodup_nat (map snd (leaves n)).
Definition kind_code (c : nat) : tkind := match c with 0%nat => KTranslate | 1%nat => KRotate | 2%nat => KScale | _ => KMirror end.

(** * 4. the affine maps the transformations name (specification side) *)
Definition reflect (n o p : vec) : vec := vsub p (vscale (2 * dot (vsub p o) n / dot n n) n).
Definition rotate_about (u : vec) (c s : R) (o p : vec) : vec := vadd (rodrigues u c s (vsub p o)) o.
Definition image_pos (t : tf) (p : vec) : vec :=
  match t with
  | TTranslate d => vadd p d
  | TRotate th a o => rotate_about (unitv a) (cos th) (sin th) o p
  | TScale r o => vadd o (vscale r (vsub p o))
  | TMirror n o => reflect n o p
  end.
(** direction quantities (axis of an arc): linear part only, with the sense flip of improper maps *)
Definition image_axis (t : tf) (a : vec) : vec :=
  match t with
  | TTranslate _ => a
  | TRotate th ax _ => rodrigues (unitv ax) (cos th) (sin th) a
  | TScale _ _ => a
  | TMirror n _ => vopp (reflect n vzero a)
  end.
Definition image_cell (t : tf) (r : role) (c : cell) : cell :=
  match r, c with
  | RAxis, CPoint a => CPoint (image_axis t a)
  | _, CPoint p => CPoint (image_pos t p)
  | _, CArray l => CArray (map (image_pos t) l)
  end.

(** * 5. output geometry computed from positions *)
(** divide_arc(axis, center, p1, p2, 1)[0]  (the axis argument is not used by the code) *)
Definition arc_mid (center p1 p2 : vec) : vec :=
  let m := vscale (/ 2) (vadd p1 p2) in
  vadd center (vscale (norm (vsub center p1)) (unitv (vsub m center))).
(** arc_from_theta(p1, p2, angle, axis) with t2 = tan(angle/2) *)
Definition theta_center (p1 p2 : vec) (t2 : R) (axis : vec) : vec :=
  let dp := vsub p2 p1 in
  let pm := vscale (/ 2) (vadd p1 p2) in
  let rm := unitv (cross dp axis) in
  let len := dot dp axis in
  let chord := vsub dp (vscale len axis) in
  vsub (vsub pm (vscale (len / 2) axis)) (vscale (norm chord / 2 / t2) rm).
Definition arc_from_theta (p1 p2 : vec) (t2 : R) (axis : vec) : vec := arc_mid (theta_center p1 p2 t2 axis) p1 p2.
(** arc_from_origin, branch without centre adjustment *)
Definition arc_from_origin (p1 p2 center : vec) : vec := arc_mid center p1 p2.
(** functions.polyline_length *)
Fixpoint polyline_length (l : list vec) : R :=
  match l with
  | a :: ((b :: _) as r) => norm (vsub a b) + polyline_length r
  | _ => 0
  end.
(** CircleCurve: point at the given value of the curve variable *)
Definition circle_point (origin rim atop : vec) (t : R) : vec := f_rotate rim t (vsub atop origin) origin.

(** functions.arc_length_3point (OpenFOAM arcEdge): centre, included angle, exterior test *)
Definition arc3_centre (ps pb pe : vec) : vec :=
  let a := vsub pb ps in let b := vsub pe ps in
  let asqr := dot a a in let bsqr := dot b b in let adotb := dot a b in
  let denom := asqr * bsqr - adotb * adotb in
  let fact := / 2 * (bsqr - adotb) / denom in
  vadd (vadd ps (vscale (/ 2) a)) (vscale fact (cross (cross a b) a)).
Definition arc_length_3point (ps pb pe : vec) : R :=
  let c := arc3_centre ps pb pe in
  let r1 := vsub ps c in let r2 := vsub pb c in let r3 := vsub pe c in
  let ang := acos (dot r1 r3 / (norm r1 * norm r3)) in
  let ang' := if Rlt_dec (dot (cross r1 r2) (cross r1 r3)) 0 then 2 * PI - ang else ang in
  ang' * norm r3.
