(** C18 - executable models of the vertex finders (no proofs here).

    Transcribed from
      modify/find/finder.py     FinderBase._find_by_position
      modify/find/geometric.py  GeometricFinder.find_in_sphere / find_on_plane
      util/functions.py         norm, unit_vector, point_to_plane_distance, is_point_on_plane
      modify/find/shape.py      RoundSolidFinder._find_from_points/_find_from_faces/find_core/find_shell

    The mesh is the list of its vertex positions (in [mesh.vertices] order); a Python [set] of
    vertices is the sub-list of that list selected by a boolean predicate (a vertex is in the
    result iff the predicate holds for it; order and multiplicity are those of the vertex list).
    [tol] stands for [constants.TOL]: it is a parameter of the model (its current value is
    tabulated into Gen/C18/Tables.v and used by the correspondence only). *)
From Coq Require Import Reals List Bool QArith.
From CB Require Import Base.Vec3.
Import ListNotations.

(** * Real-valued part: sphere and plane *)
Open Scope R_scope.

(** a comparison of reals as a boolean (Python's [<] on floats, read over the reals) *)
Definition Rltb (a b : R) : bool := if Rlt_dec a b then true else false.

(** [f.norm(vertex.position - position) < radius] *)
Definition in_sphere_b (p : vec) (r : R) (v : vec) : bool := Rltb (norm (vsub v p)) r.

(** [FinderBase._find_by_position(position, radius)]; [radius=None] means [constants.TOL] *)
Definition find_by_position (tol : R) (vs : list vec) (p : vec) (radius : option R) : list vec :=
  let r := match radius with Some r => r | None => tol end in
  filter (in_sphere_b p r) vs.

(** [GeometricFinder.find_in_sphere] just forwards *)
Definition find_in_sphere (tol : R) (vs : list vec) (p : vec) (radius : option R) : list vec :=
  find_by_position tol vs p radius.

(** [f.unit_vector] *)
Definition unit_vector (v : vec) : vec := vscale (/ norm v) v.

(** [f.point_to_plane_distance(origin, normal, point)] *)
Definition point_to_plane_distance (tol : R) (origin normal point : vec) : R :=
  let n := unit_vector normal in
  if Rltb (norm (vsub origin point)) tol then norm (vsub origin point)
  else Rabs (dot (vsub point origin) n).

(** [f.is_point_on_plane] *)
Definition is_point_on_plane (tol : R) (origin normal point : vec) : bool :=
  Rltb (point_to_plane_distance tol origin normal point) tol.

(** [GeometricFinder.find_on_plane(point, normal)] *)
Definition find_on_plane (tol : R) (vs : list vec) (origin normal : vec) : list vec :=
  filter (is_point_on_plane tol origin normal) vs.

(** * Rational part: the round-shape finder.

    Positions are exact rationals (binary64 values are dyadic).  [norm(a - b) < tol] is decided
    without a square root as [|a-b|^2 < tol^2] (for [0 < tol]); this is the only deviation from a
    literal transcription and is justified by [Proofs/C18_Finder.v: norm_lt_iff_sq]. *)
Open Scope Q_scope.

Definition qvec := (Q * Q * Q)%type.
Definition qsub (a b : qvec) : qvec :=
  let '(a1, a2, a3) := a in let '(b1, b2, b3) := b in (a1 - b1, a2 - b2, a3 - b3).
Definition qdot (a b : qvec) : Q :=
  let '(a1, a2, a3) := a in let '(b1, b2, b3) := b in a1 * b1 + a2 * b2 + a3 * b3.
Definition qdist2 (a b : qvec) : Q := qdot (qsub a b) (qsub a b).
Definition Qltb (a b : Q) : bool := negb (Qle_bool b a).

(** [norm(vertex.position - position) < TOL] *)
Definition qnear (tol : Q) (p v : qvec) : bool := Qltb (qdist2 v p) (tol * tol).

(** a vertex ends up in the set built by [_find_from_points(points)] iff it is near one of them *)
Definition found_from_points (tol : Q) (points : list qvec) (v : qvec) : bool :=
  existsb (fun p => qnear tol p v) points.

(** ... and in the set built by [_find_from_faces(faces)] iff it is found from one face's points *)
Definition found_from_faces (tol : Q) (faces : list (list qvec)) (v : qvec) : bool :=
  existsb (fun f => found_from_points tol f v) faces.

(** the sets are represented by the indices (positions in [mesh.vertices]) of their members *)
Fixpoint select_idx {A} (f : A -> bool) (l : list A) (i : nat) : list nat :=
  match l with
  | [] => []
  | x :: r => if f x then i :: select_idx f r (S i) else select_idx f r (S i)
  end.

(** [RoundSolidFinder.find_core(end_face)]: [core] = faces of [sketch.core] of the chosen end *)
Definition find_core (tol : Q) (vs : list qvec) (core : list (list qvec)) : list nat :=
  select_idx (found_from_faces tol core) vs 0.

(** [RoundSolidFinder.find_shell(end_face)] = shell vertices minus core vertices *)
Definition find_shell (tol : Q) (vs : list qvec) (core shell : list (list qvec)) : list nat :=
  select_idx (fun v => found_from_faces tol shell v && negb (found_from_faces tol core v)) vs 0.
