(** C18 - executable models of the vertex finders (no proofs here).

    Transcribed from
      modify/find/finder.py     FinderBase._find_by_position
      modify/find/geometric.py  GeometricFinder.find_in_sphere / find_on_plane
      util/functions.py         norm, unit_vector, point_to_plane_distance, is_point_on_plane
      modify/find/shape.py      RoundSolidFinder._find_from_points/_find_from_faces/find_core/find_shell

    The mesh is the list of its vertex positions (in [mesh.vertices] order); a Python [set] of
    vertices is the sub-list of that list selected by a boolean predicate (a vertex is in the
    result iff the predicate holds for it; order and multiplicity are those of the vertex list).
    [tol] stands for [constants.TOL]: it is a parameter of the model (its current value is
    tabulated into Gen/C18/Tables.v and used by the correspondence only). *)
From Coq Require Import Reals List Bool ZArith.
From CB Require Import Base.Vec3.
Import ListNotations.

(** * Real-valued part: sphere and plane *)
Open Scope R_scope.

(** a comparison of reals as a boolean (Python's [<] on floats, read over the reals) *)
Definition Rltb (a b : R) : bool := if Rlt_dec a b then true else false.

(** [f.norm(vertex.position - position) < radius] *)
Definition in_sphere_b (p : vec) (r : R) (v : vec) : bool := Rltb (norm (vsub v p)) r.

(** [FinderBase._find_by_position(position, radius)]; [radius=None] means [constants.TOL] *)
Definition find_by_position (tol : R) (vs : list vec) (p : vec) (radius : option R) : list vec :=
  let r := match radius with Some r => r | None => tol end in
  filter (in_sphere_b p r) vs.

(** [GeometricFinder.find_in_sphere] just forwards *)
Definition find_in_sphere (tol : R) (vs : list vec) (p : vec) (radius : option R) : list vec :=
  find_by_position tol vs p radius.

(** [f.unit_vector] *)
Definition unit_vector (v : vec) : vec := vscale (/ norm v) v.

(** [f.point_to_plane_distance(origin, normal, point)] *)
Definition point_to_plane_distance (tol : R) (origin normal point : vec) : R :=
  let n := unit_vector normal in
  if Rltb (norm (vsub origin point)) tol then norm (vsub origin point)
  else Rabs (dot (vsub point origin) n).

(** [f.is_point_on_plane] *)
Definition is_point_on_plane (tol : R) (origin normal point : vec) : bool :=
  Rltb (point_to_plane_distance tol origin normal point) tol.

(** [GeometricFinder.find_on_plane(point, normal)] *)
Definition find_on_plane (tol : R) (vs : list vec) (origin normal : vec) : list vec :=
  filter (is_point_on_plane tol origin normal) vs.

(** * Integer part: the round-shape finder.

    Positions are binary64 values, i.e. dyadic rationals.  The harness writes every number of one
    case as an integer multiple of one common unit [u = 2^-e] (position = mantissa * u, TOL = T * u);
    the model works on the integer mantissas, exactly.  [norm(a - b) < TOL] is decided without a
    square root as [|a-b|^2 < T^2] (for [0 < T]); this is the only deviation from a literal
    transcription and is justified by [Proofs/C18_Finder.v: znear_real]. *)
Open Scope Z_scope.

Definition zvec := (Z * Z * Z)%type.
Definition zsub (a b : zvec) : zvec :=
  let '(a1, a2, a3) := a in let '(b1, b2, b3) := b in (a1 - b1, a2 - b2, a3 - b3).
Definition zdot (a b : zvec) : Z :=
  let '(a1, a2, a3) := a in let '(b1, b2, b3) := b in a1 * b1 + a2 * b2 + a3 * b3.
Definition zdist2 (a b : zvec) : Z := zdot (zsub a b) (zsub a b).

(** [norm(vertex.position - position) < TOL] *)
Definition znear (T : Z) (p v : zvec) : bool := zdist2 v p <? T * T.

(** a vertex ends up in the set built by [_find_from_points(points)] iff it is near one of them *)
Definition found_from_points (T : Z) (points : list zvec) (v : zvec) : bool :=
  existsb (fun p => znear T p v) points.

(** ... and in the set built by [_find_from_faces(faces)] iff it is found from one face's points *)
Definition found_from_faces (T : Z) (faces : list (list zvec)) (v : zvec) : bool :=
  existsb (fun f => found_from_points T f v) faces.

(** the sets are represented by the indices (positions in [mesh.vertices]) of their members *)
Fixpoint select_idx {A} (f : A -> bool) (l : list A) (i : nat) : list nat :=
  match l with
  | [] => []
  | x :: r => if f x then i :: select_idx f r (S i) else select_idx f r (S i)
  end.

(** [RoundSolidFinder.find_core(end_face)]: [core] = faces of [sketch.core] of the chosen end *)
Definition find_core (T : Z) (vs : list zvec) (core : list (list zvec)) : list nat :=
  select_idx (found_from_faces T core) vs 0.

(** [RoundSolidFinder.find_shell(end_face)] = shell vertices minus core vertices *)
Definition find_shell (T : Z) (vs : list zvec) (core shell : list (list zvec)) : list nat :=
  select_idx (fun v => found_from_faces T shell v && negb (found_from_faces T core v)) vs 0.

(** the real point denoted by integer mantissas at unit [u] *)
Definition zR (u : R) (v : zvec) : vec := let '(a, b, c) := v in (IZR a * u, IZR b * u, IZR c * u)%R.
