(** C04 - what a written section (count, total expansion) realises on an edge of a given length with
    blockMesh's geometric progression, in a form the [interval] tactic evaluates (Horner sum, exp/ln).
    Proofs/C04_Realise.v shows these are [bm_first], [bm_last], [bm_ratio] of Model/C03_Relations.v.
    No proofs in this file. *)
From Coq Require Import Reals.
From CB Require Import Model.C04_Payload.
Open Scope R_scope.

Fixpoint horner (r : R) (n : nat) : R := match n with O => 0 | S k => 1 + r * horner r k end.
(** cell-to-cell ratio of n cells with total expansion E *)
Definition ratio_of (n : nat) (E : R) : R := exp (ln E / INR (n - 1)).
(** first cell size, last cell size, cell-to-cell ratio *)
Definition realised (f : fld) (L : R) (n : nat) (E : R) : R :=
  match f with
  | PStart => L / horner (ratio_of n E) n
  | PEnd => L * E / horner (ratio_of n E) n
  | PC2c => ratio_of n E
  end.
Definition realises (f : fld) (v L : R) (n : nat) (E : R) : Prop := 0 < E /\ realised f L n E = v.
(** the correspondence goal: relative tolerance *)
Definition realises_tol (f : fld) (v L : R) (n : nat) (E tol : R) : Prop :=
  0 < E /\ Rabs (realised f L n E - v) <= tol * v.
