(** C18 - executable geometric specification of "core" and "outer rim" of an end face of a round
    solid, and the record compared against the implementation (definitions only, no proofs).

    The end face is the disk with centre [c], (not necessarily unit) normal [n] and radius [R].
    A vertex [v] lies on the end plane when its distance to the plane is at most 1e-6 R; it is on the
    rim when its distance to the axis is R up to a relative 1e-6 (in the square), inside when it is
    smaller than that.  Everything is exact integer arithmetic on the binary64 values: all positions,
    the radius and TOL of one case are integer mantissas at the common unit 2^-[rc_exp]; the normal
    only gives a direction and is written at a unit of its own (every predicate below is homogeneous
    in it). *)
From Coq Require Import List Bool Arith ZArith.
From CB Require Import Model.C18_Finder.
Import ListNotations.
Open Scope Z_scope.

Definition inv_eps_plane : Z := 1000000000000.   (* 1 / (1e-6)^2 *)
Definition inv_eps_rim : Z := 1000000.           (* 1 / 1e-6 *)

(** (v - c) . n  =  |n| times the signed distance from the end plane *)
Definition axial (c n v : zvec) : Z := zdot (zsub v c) n.

(** |n|^2 times the squared distance from the axis *)
Definition radial2n (c n v : zvec) : Z := zdist2 v c * zdot n n - axial c n v * axial c n v.

(** dist_plane^2 <= 1e-12 R^2 *)
Definition on_end (c n : zvec) (R : Z) (v : zvec) : bool :=
  axial c n v * axial c n v * inv_eps_plane <=? R * R * zdot n n.

(** | dist_axis^2 - R^2 | <= 1e-6 R^2 *)
Definition is_rim (c n : zvec) (R : Z) (v : zvec) : bool :=
  on_end c n R v && (Z.abs (radial2n c n v - R * R * zdot n n) * inv_eps_rim <=? R * R * zdot n n).

(** dist_axis^2 < (1 - 1e-6) R^2 *)
Definition is_inner (c n : zvec) (R : Z) (v : zvec) : bool :=
  on_end c n R v && (radial2n c n v * inv_eps_rim <? (inv_eps_rim - 1) * (R * R * zdot n n)).

Record round_case := {
  rc_id : nat;
  rc_exp : Z;                       (* unit of this case: 2^-rc_exp *)
  rc_tol : Z;                       (* constants.TOL *)
  rc_verts : list zvec;             (* mesh.vertices, in order *)
  rc_core : list (list zvec);       (* points of the faces of sketch.core of the chosen end *)
  rc_shell : list (list zvec);      (* points of the faces of sketch.shell *)
  rc_center : zvec;                 (* the disk, from the constructor arguments *)
  rc_normal : zvec;                 (* a positive multiple of the normal *)
  rc_radius : Z;
  rc_found_core : list nat;         (* what RoundSolidFinder.find_core returned (sorted indices) *)
  rc_found_shell : list nat
}.

Definition nat_list_eqb (a b : list nat) : bool :=
  (length a =? length b)%nat && forallb (fun xy => (fst xy =? snd xy)%nat) (combine a b).

(** the model of the finder returns what the implementation returned *)
Definition rc_model_ok (c : round_case) : bool :=
  nat_list_eqb (find_core (rc_tol c) (rc_verts c) (rc_core c)) (rc_found_core c)
  && nat_list_eqb (find_shell (rc_tol c) (rc_verts c) (rc_core c) (rc_shell c)) (rc_found_shell c).

(** the implementation returned exactly the inner / rim vertices of the end face *)
Definition rc_spec_ok (c : round_case) : bool :=
  nat_list_eqb (select_idx (is_inner (rc_center c) (rc_normal c) (rc_radius c)) (rc_verts c) 0) (rc_found_core c)
  && nat_list_eqb (select_idx (is_rim (rc_center c) (rc_normal c) (rc_radius c)) (rc_verts c) 0) (rc_found_shell c).
