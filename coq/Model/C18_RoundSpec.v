(** C18 - executable geometric specification of "core" and "outer rim" of an end face of a round
    solid, and the record compared against the implementation (definitions only, no proofs).

    The end face is the disk with centre [c], (not necessarily unit) normal [n] and radius [R].
    A vertex [v] lies on the end plane when its distance to the plane is at most 1e-6 R; it is on the
    rim when its distance to the axis is R up to a relative 1e-6 (in the square), inside when it is
    smaller than that.  Everything is exact rational arithmetic on the binary64 values. *)
From Coq Require Import List Bool Arith QArith.
From CB Require Import Model.C18_Finder.
Import ListNotations.
Open Scope Q_scope.

Definition eps_plane : Q := 1 # 1000000000000.   (* (1e-6)^2 *)
Definition eps_rim : Q := 1 # 1000000.

Definition Qabs' (x : Q) : Q := if Qle_bool 0 x then x else - x.

Definition axial (c n v : qvec) : Q := qdot (qsub v c) n.

(** |n|^2 times the squared distance from the axis *)
Definition radial2n (c n v : qvec) : Q := qdist2 v c * qdot n n - axial c n v * axial c n v.

Definition on_end (c n : qvec) (R : Q) (v : qvec) : bool :=
  Qle_bool (axial c n v * axial c n v) (eps_plane * R * R * qdot n n).

Definition is_rim (c n : qvec) (R : Q) (v : qvec) : bool :=
  on_end c n R v && Qle_bool (Qabs' (radial2n c n v - R * R * qdot n n)) (eps_rim * R * R * qdot n n).

Definition is_inner (c n : qvec) (R : Q) (v : qvec) : bool :=
  on_end c n R v && Qltb (radial2n c n v) ((1 - eps_rim) * R * R * qdot n n).

Record round_case := {
  rc_id : nat;
  rc_tol : Q;
  rc_verts : list qvec;             (* mesh.vertices, in order *)
  rc_core : list (list qvec);       (* points of the faces of sketch.core of the chosen end *)
  rc_shell : list (list qvec);      (* points of the faces of sketch.shell *)
  rc_center : qvec;                 (* the disk, from the constructor arguments *)
  rc_normal : qvec;
  rc_radius : Q;
  rc_found_core : list nat;         (* what RoundSolidFinder.find_core returned (sorted indices) *)
  rc_found_shell : list nat
}.

Definition nat_list_eqb (a b : list nat) : bool :=
  (length a =? length b)%nat && forallb (fun xy => (fst xy =? snd xy)%nat) (combine a b).

(** the model of the finder returns what the implementation returned *)
Definition rc_model_ok (c : round_case) : bool :=
  nat_list_eqb (find_core (rc_tol c) (rc_verts c) (rc_core c)) (rc_found_core c)
  && nat_list_eqb (find_shell (rc_tol c) (rc_verts c) (rc_core c) (rc_shell c)) (rc_found_shell c).

(** the implementation returned exactly the inner / rim vertices of the end face *)
Definition rc_spec_ok (c : round_case) : bool :=
  nat_list_eqb (select_idx (is_inner (rc_center c) (rc_normal c) (rc_radius c)) (rc_verts c) 0) (rc_found_core c)
  && nat_list_eqb (select_idx (is_rim (rc_center c) (rc_normal c) (rc_radius c)) (rc_verts c) 0) (rc_found_shell c).
