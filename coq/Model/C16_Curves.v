(** C16 - executable model of the curve classes of classy_blocks (no proofs in this file).

    Transcribed from
      construct/curves/curve.py         CurveBase.get_closest_param, FunctionCurveBase.discretize/get_closest_param
                                        (several starts: fixes/C16-2.diff; one start = the snapshot)
      construct/curves/discrete.py      DiscreteCurve.discretize/get_length/get_closest_param/get_point
      construct/curves/interpolators.py InterpolatorBase.params, LinearInterpolator (scipy interp1d, linear)
      construct/curves/interpolated.py  InterpolatedCurveBase.get_length (repaired formula, fixes/C16-1.diff, and the
                                        formula of the snapshot as [il_params_old])
      construct/curves/analytic.py      AnalyticCurve.get_length, LineCurve, CircleCurve
      items/edges/curve.py              OnCurveEdge.point_array / length
      construct/edges.py                OnCurve.discretize
    Real numbers stand for binary64 values; the correspondence (harness/props/C16.py) evaluates these
    definitions on the inputs of the implementation with the [interval] tactic.  Decisions on reals
    ([Rlt_dec], [Rle_dec]) are the branches of the code; the correspondence hands the branch taken to Coq as
    inequalities, Proofs/C16_Curves.v shows that those inequalities determine the value of the model. *)
From Coq Require Import Reals List Arith ZArith.
From CB Require Import Base.Vec3.
Import ListNotations.
Open Scope R_scope.

Definition dist (p q : vec) : R := norm (vsub p q).

(** util.functions.polyline_length *)
Fixpoint polylen (l : list vec) : R :=
  match l with
  | [] => 0
  | a :: t => match t with [] => 0 | b :: _ => dist a b + polylen t end
  end.

(** numpy.linspace(a, b, num=n) *)
Definition lin_at (a b : R) (n i : nat) : R := a + IZR (Z.of_nat i) * ((b - a) / IZR (Z.of_nat (n - 1))).
Definition linspace (a b : R) (n : nat) : list R := map (lin_at a b n) (seq 0 n).

(** np.argmin: first index of the smallest entry *)
Fixpoint argmin_aux (ds : list R) (i best : nat) (bv : R) : nat :=
  match ds with
  | [] => best
  | d :: t => if Rlt_dec d bv then argmin_aux t (S i) i d else argmin_aux t (S i) best bv
  end.
Definition argmin (ds : list R) : nat := match ds with [] => O | d :: t => argmin_aux t 1%nat O d end.

(** ** DiscreteCurve: the parameter is an index *)
Definition dc_point (pts : list vec) (i : nat) : vec := nth i pts vzero.
Definition slice {A : Type} (l : list A) (a b : nat) : list A := firstn (S b - a) (skipn a l).  (* l[a : b+1] *)
Definition dc_discretize {A : Type} (pts : list A) (a b : nat) : list A :=
  if (a <=? b)%nat then slice pts a b else rev (slice pts b a).
Definition dc_length (pts : list vec) (a b : nat) : R := polylen (dc_discretize pts a b).
Definition dc_closest (pts : list vec) (q : vec) : nat := argmin (map (fun p => dist p q) pts).

(** ** FunctionCurveBase: a curve given by a function [f] *)
Definition fc_discretize (f : R -> vec) (a b : R) (n : nat) : list vec := map f (linspace a b n).
(** AnalyticCurve.get_length: polyline through 100 samples *)
Definition fc_length_n (n : nat) (f : R -> vec) (a b : R) : R := polylen (fc_discretize f a b n).
Definition fc_length := fc_length_n 100.
(** CurveBase.get_closest_param: the coarse stage ([cnt] = number of samples of [discretize()], 15 in the code;
    a parameter of the model, its value is read from the implementation by the correspondence) *)
Definition fc_coarse (f : R -> vec) (lo hi : R) (cnt : nat) (q : vec) : R :=
  nth (argmin (map (fun p => dist p q) (fc_discretize f lo hi cnt))) (linspace lo hi cnt) lo.
(** np.argsort(kind="stable"): the indices sorted by their entries, equal entries in the order of their indices
    (the indices are inserted from the last to the first, each before the first index whose entry is not smaller) *)
Fixpoint insert_idx (d : nat -> R) (k : nat) (l : list nat) : list nat :=
  match l with
  | [] => [k]
  | j :: t => if Rle_dec (d k) (d j) then k :: l else j :: insert_idx d k t
  end.
Definition argsort_from (d : nat -> R) (i n : nat) : list nat := fold_right (insert_idx d) [] (seq i n).
Definition argsort (ds : list R) : list nat := argsort_from (fun i => nth i ds 0) 0 (length ds).
(** the coarse samples sorted by their distance from the query (fixes/C16-2.diff: CurveBase._get_coarse_params);
    the search starts from the parameters of the first [ns] of them ([ns] = 3 in the repaired code, 1 in the
    snapshot; a parameter of the model, read from the implementation by the correspondence).  The first start is
    [fc_coarse] (Proofs/C16_Curves.v: [argsort_hd], [fc_starts_hd]). *)
Definition fc_starts (f : R -> vec) (lo hi : R) (cnt ns : nat) (q : vec) : list R :=
  map (fun k => nth k (linspace lo hi cnt) lo)
      (firstn ns (argsort (map (fun p => dist p q) (fc_discretize f lo hi cnt)))).
(** min(results, key=...): the first entry with the smallest key *)
Definition best_of (g : R -> R) (rs : list R) (d : R) : R := nth (argmin (map g rs)) rs d.
(** FunctionCurveBase.get_closest_param: one run of the bounded minimiser from every start, the result whose point
    is closest to the query is returned.  [minimise] stands for scipy.optimize.minimize started at a given
    parameter (a black box; assumption stated where it is used) *)
Definition fc_closest (minimise : R -> R) (f : R -> vec) (lo hi : R) (cnt ns : nat) (q : vec) : R :=
  best_of (fun r => dist (f r) q) (map minimise (fc_starts f lo hi cnt ns q)) lo.

(** LineCurve / CircleCurve (f.rotate = expm of the skew matrix = Rodrigues' formula; [nrm] is the normal as
    given, the code normalises it) *)
Definition line_point (p1 p2 : vec) (t : R) : vec := vadd p1 (vscale t (vsub p2 p1)).
Definition rodrigues (k v : vec) (t : R) : vec :=
  vadd (vadd (vscale (cos t) v) (vscale (sin t) (cross k v))) (vscale (dot k v * (1 - cos t)) k).
Definition unit (n : vec) : vec := vscale (/ norm n) n.
Definition circle_point_k (o rim k : vec) (t : R) : vec := vadd o (rodrigues k (vsub rim o) t).
Definition circle_point (o rim nrm : vec) (t : R) : vec := circle_point_k o rim (unit nrm) t.

(** ** Interpolated curves *)
(** InterpolatorBase.params with equalize=True: cumulative chord lengths divided by the total *)
Fixpoint cumlen (acc : R) (l : list vec) : list R :=
  match l with
  | [] => []
  | a :: t => match t with [] => [] | b :: _ => (acc + dist a b) :: cumlen (acc + dist a b) t end
  end.
Definition chord_params (ps : list vec) : list R := 0 :: map (fun s => s / polylen ps) (cumlen 0 ps).
(** equalize=False *)
Definition uniform_params (n : nat) : list R := linspace 0 1 n.

(** scipy.interpolate.interp1d(kind=linear) on one interval, and the interval search *)
Definition seg_point (t0 t1 : R) (p0 p1 : vec) (t : R) : vec :=
  vadd p0 (vscale ((t - t0) / (t1 - t0)) (vsub p1 p0)).
Fixpoint lin_point (ts : list R) (ps : list vec) (t : R) : vec :=
  match ts, ps with
  | t0 :: ts', p0 :: ps' =>
      match ts', ps' with
      | t1 :: ts'', p1 :: _ =>
          match ts'' with
          | [] => seg_point t0 t1 p0 p1 t
          | _ :: _ => if Rle_dec t t1 then seg_point t0 t1 p0 p1 t else lin_point ts' ps' t
          end
      | _, _ => p0
      end
  | _, _ => vzero
  end.
(** the value on segment [i] (the branch the correspondence reports) *)
Definition lin_point_at (i : nat) (ts : list R) (ps : list vec) (t : R) : vec :=
  seg_point (nth i ts 0) (nth (S i) ts 0) (nth i ps vzero) (nth (S i) ps vzero) t.

(** InterpolatedCurveBase.get_length, repaired: the break points strictly between the two parameters are the
    interpolator's own knots [ts] *)
Definition between (lo hi t : R) : bool :=
  if Rlt_dec lo t then (if Rlt_dec t hi then true else false) else false.
Definition il_params (ts : list R) (lo hi : R) : list R := lo :: filter (between lo hi) ts ++ [hi].
Definition il_length (f : R -> vec) (ts : list R) (a b : R) : R :=
  polylen (map f (il_params ts (Rmin a b) (Rmax a b))).

(** the formula of the snapshot: knots taken as i/segments, [kf] = int(a*segments), [kt] = int(b*segments) *)
Definition is_floor (x : R) (k : nat) : Prop := INR k <= x < INR k + 1.
Definition il_params_old (seg kf kt : nat) (a b : R) : list R :=
  a :: map (fun i => INR i / INR seg) (if (S kf <? kt)%nat then seq (S kf) (kt - S kf) else []) ++ [b].
Definition il_length_old (f : R -> vec) (seg kf kt : nat) (a b : R) : R :=
  polylen (map f (il_params_old seg kf kt a b)).

(** ** specification side: arc length of the piecewise-linear curve up to parameter [t]
    (clamp written with [Rabs] so that [interval] can evaluate it) *)
Definition pos (x : R) : R := (x + Rabs x) / 2.
Definition clamp01 (x : R) : R := pos x - pos (x - 1).
Fixpoint arclen (ts : list R) (ps : list vec) (t : R) : R :=
  match ts, ps with
  | t0 :: ts', p0 :: ps' =>
      match ts', ps' with
      | t1 :: _, p1 :: _ => dist p0 p1 * clamp01 ((t - t0) / (t1 - t0)) + arclen ts' ps' t
      | _, _ => 0
      end
  | _, _ => 0
  end.

(** ** the branches of the model as explicit traces (what the correspondence reports for one input) *)
(** [i] knots are <= lo, the next [c] knots are strictly between lo and hi, the remaining ones are >= hi *)
Fixpoint knots_split (ts : list R) (lo hi : R) (i c : nat) : Prop :=
  match ts with
  | [] => True
  | t :: ts' =>
      match i with
      | S i' => t <= lo /\ knots_split ts' lo hi i' c
      | O => match c with
             | S c' => (lo < t /\ t < hi) /\ knots_split ts' lo hi O c'
             | O => hi <= t /\ knots_split ts' lo hi O O
             end
      end
  end.
(** value of [il_length] on that branch: [xlo], [xhi] are the curve points at the two parameters, [fk] the
    curve points at the knots *)
Definition il_length_at (xlo xhi : vec) (fk : list vec) (i c : nat) : R :=
  polylen (xlo :: firstn c (skipn i fk) ++ [xhi]).
(** [k] is the first index of the smallest entry *)
Fixpoint argmin_at (ds : list R) (dk : R) (k : nat) : Prop :=
  match ds with
  | [] => True
  | d :: t => match k with
              | S k' => dk < d /\ argmin_at t dk k'
              | O => dk <= d /\ argmin_at t dk O
              end
  end.

(** ** closed forms and optimality certificates (specification side; theorems in Proofs/C16_Curves.v) *)
(** centre, radius vector and radius of the circle traced by [circle_point_k] (the rim point need not lie in the
    plane through the origin) *)
Definition circle_centre (o rim k : vec) : vec := vadd o (vscale (dot k (vsub rim o)) k).
Definition circle_u (o rim k : vec) : vec := vsub (vsub rim o) (vscale (dot k (vsub rim o)) k).
Definition circle_w (o rim k : vec) : vec := cross k (vsub rim o).
Definition circle_radius (o rim k : vec) : R := norm (circle_u o rim k).
(** squared distance from [q] to the nearest point of the full circle *)
Definition circle_lb (o rim k q : vec) : R :=
  let c := circle_centre o rim k in
  let a := dot (vsub q c) (circle_u o rim k) in
  let b := dot (vsub q c) (circle_w o rim k) in
  norm2 (vsub c q) + norm2 (circle_u o rim k) - 2 * sqrt (a * a + b * b).
Definition circle_defect (o rim k q : vec) (r : R) : R :=
  dist (circle_point_k o rim k r) q - sqrt (circle_lb o rim k q).
(** the parameter of the point of the line segment [lo, hi] nearest to [q] *)
Definition clamp (lo hi x : R) : R := lo + pos (x - lo) - pos (x - hi).
Definition line_topt (p1 p2 : vec) (lo hi : R) (q : vec) : R :=
  clamp lo hi (dot (vsub q p1) (vsub p2 p1) / norm2 (vsub p2 p1)).
Definition line_defect (p1 p2 : vec) (lo hi : R) (q : vec) (r : R) : R :=
  dist (line_point p1 p2 r) q - dist (line_point p1 p2 (line_topt p1 p2 lo hi q)) q.

(** ** comparison predicates used by the generated correspondence goals *)
Fixpoint close_list (tol : R) (l m : list vec) : Prop :=
  match l, m with
  | [], [] => True
  | a :: l', b :: m' => dist a b <= tol /\ close_list tol l' m'
  | _, _ => False
  end.
Fixpoint close_rlist (tol : R) (l m : list R) : Prop :=
  match l, m with
  | [], [] => True
  | a :: l', b :: m' => Rabs (a - b) <= tol /\ close_rlist tol l' m'
  | _, _ => False
  end.

(** ** OnCurveEdge: the points written for an edge snapped to a curve (OnCurve.discretize asks for
    n_points + 2 samples, point_array drops both ends) *)
Definition interior {A : Type} (l : list A) : list A := removelast (tl l).
Definition edge_params (ps pe : R) (n : nat) : list R := interior (linspace ps pe (n + 2)).
Definition edge_points (f : R -> vec) (ps pe : R) (n : nat) : list vec := interior (fc_discretize f ps pe (n + 2)).
Definition dc_edge_points {A : Type} (pts : list A) (a b : nat) : list A := interior (dc_discretize pts a b).
