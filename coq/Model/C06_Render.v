(** C06 - token level model of the blockMeshDict file: abstract file, renderer, parser.

    Transcribed from the [description] properties of the list classes and [Mesh.write]
    (mesh.py, lists/*.py, items/patch.py, items/block.py, items/side.py, items/vertex.py).
    Whitespace and comments are below the token level (the harness lexer removes them); numbers are
    exact rationals (the lexer converts each numeric literal to the exact value of the double it
    denotes).  The [edges] section belongs to C07: the renderer writes it empty and the parser skips
    its (balanced) content.  No proofs in this file. *)
From Coq Require Import List Bool Arith ZArith QArith String.
Import ListNotations.
Open Scope nat_scope.

Inductive tok :=
| W (s : string)   (* word: keyword, name, quoted string ... *)
| LP | RP          (* ( ) *)
| LB | RB          (* { } *)
| SC               (* ; *)
| N (x : Q).       (* numeric literal *)

(** literal helper used by the generated case files *)
Definition q (n : Z) (d : positive) : Q := Qmake n d.
Arguments q n%Z d%positive.
(** [dy m e] = m * 2^e (exact value of a double), [dc n k] = n / 10^k (a decimal literal) *)
Definition dy (m e : Z) : Q :=
  match e with
  | Zneg p => Qmake m (Pos.shiftl 1 (Npos p))
  | _ => Qmake (m * 2 ^ e) 1
  end.
Definition dc (n : Z) (k : nat) : Q := Qmake n (Z.to_pos (10 ^ Z.of_nat k)).
Arguments dy m%Z e%Z.
Arguments dc n%Z k%nat.

Definition Nn (n : nat) : tok := N (inject_Z (Z.of_nat n)).

Definition is_sc (t : tok) : bool := match t with SC => true | _ => false end.
Definition is_rp (t : tok) : bool := match t with RP => true | _ => false end.
Definition is_rb (t : tok) : bool := match t with RB => true | _ => false end.
Definition is_word (s : string) (t : tok) : bool := match t with W u => String.eqb u s | _ => false end.

(** * The abstract file: exactly the data that is written *)
Definition pt := (Q * Q * Q)%type.

Inductive gspec :=
| GOne (e : Q)                       (* a single expansion ratio *)
| GMulti (l : list (Q * Q * Q)).     (* ((length-ratio count expansion) ...) *)

Record ablock := mkBlock {
  b_vids : list nat;
  b_zone : option string;
  b_counts : list nat;
  b_gkw : string;            (* simpleGrading | edgeGrading *)
  b_gspecs : list gspec
}.

Record avertex := mkVertex { v_pos : pt; v_labels : list string }.

Record apatch := mkPatch {
  p_name : string;
  p_kind : string;
  p_settings : list (list tok);
  p_quads : list (list nat)
}.

Definition entry := (string * list tok)%type.             (* key value... ; *)
Definition ageom := (string * list (list tok))%type.      (* name { prop ; ... } *)

Record afile := mkFile {
  f_header : list entry;            (* FoamFile { ... } *)
  f_settings : list entry;
  f_geometry : list ageom;          (* section omitted when empty *)
  f_vertices : list avertex;
  f_blocks : list ablock;
  f_faces : list (list nat * string);
  f_patches : list apatch;
  f_default : option (string * string);
  f_merged : list (string * string)
}.

(** * Renderer *)
Definition r_entry (e : entry) : list tok := W (fst e) :: snd e ++ [SC].
Definition r_prop (p : list tok) : list tok := p ++ [SC].
Definition r_geom (g : ageom) : list tok := W (fst g) :: LB :: flat_map r_prop (snd g) ++ [RB].
Definition r_vec (p : pt) : list tok := let '(x, y, z) := p in [LP; N x; N y; N z; RP].
Definition r_vertex (v : avertex) : list tok :=
  match v_labels v with
  | [] => r_vec (v_pos v)
  | ls => W "project" :: r_vec (v_pos v) ++ LP :: map W ls ++ [RP]
  end.
Definition r_triple (t : Q * Q * Q) : list tok := let '(a, b, c) := t in [LP; N a; N b; N c; RP].
Definition r_gspec (g : gspec) : list tok :=
  match g with
  | GOne e => [N e]
  | GMulti l => LP :: flat_map r_triple l ++ [RP]
  end.
Definition r_zone (z : option string) : list tok := match z with Some s => [W s] | None => [] end.
Definition r_block (b : ablock) : list tok :=
  W "hex" :: LP :: map Nn (b_vids b) ++ RP :: r_zone (b_zone b) ++ LP :: map Nn (b_counts b) ++ RP
  :: W (b_gkw b) :: LP :: flat_map r_gspec (b_gspecs b) ++ [RP].
Definition r_quad (qd : list nat) : list tok := LP :: map Nn qd ++ [RP].
Definition r_face (f : list nat * string) : list tok := W "project" :: r_quad (fst f) ++ [W (snd f)].
Definition r_patch (p : apatch) : list tok :=
  W (p_name p) :: LB :: W "type" :: W (p_kind p) :: SC :: flat_map r_prop (p_settings p)
  ++ W "faces" :: LP :: flat_map r_quad (p_quads p) ++ [RP; SC; RB].
Definition r_default (d : option (string * string)) : list tok :=
  match d with
  | Some (n, k) => [W "defaultPatch"; LB; W "name"; W n; SC; W "type"; W k; SC; RB]
  | None => []
  end.
Definition r_pair (p : string * string) : list tok := [LP; W (fst p); W (snd p); RP].
Definition r_geometry (gs : list ageom) : list tok :=
  match gs with
  | [] => []
  | _ => W "geometry" :: LB :: flat_map r_geom gs ++ [RB; SC]
  end.

Definition render (f : afile) : list tok :=
  W "FoamFile" :: LB :: flat_map r_entry (f_header f) ++ RB
  :: flat_map r_entry (f_settings f)
  ++ r_geometry (f_geometry f)
  ++ W "vertices" :: LP :: flat_map r_vertex (f_vertices f) ++ RP :: SC
  :: W "blocks" :: LP :: flat_map r_block (f_blocks f) ++ RP :: SC
  :: W "edges" :: LP :: RP :: SC
  :: W "faces" :: LP :: flat_map r_face (f_faces f) ++ RP :: SC
  :: W "boundary" :: LP :: flat_map r_patch (f_patches f) ++ RP :: SC
  :: r_default (f_default f)
  ++ W "mergePatchPairs" :: LP :: flat_map r_pair (f_merged f) ++ [RP; SC].

(** * Parser *)
Definition parser (A : Type) := list tok -> option (A * list tok).

(** tokens up to (not including) the first [;], which is consumed *)
Fixpoint until_sc (ts : list tok) : option (list tok * list tok) :=
  match ts with
  | [] => None
  | SC :: r => Some ([], r)
  | t :: r => match until_sc r with Some (l, r') => Some (t :: l, r') | None => None end
  end.

(** words up to the closing parenthesis, which is consumed *)
Fixpoint words_until_rp (ts : list tok) : option (list string * list tok) :=
  match ts with
  | RP :: r => Some ([], r)
  | W s :: r => match words_until_rp r with Some (l, r') => Some (s :: l, r') | None => None end
  | _ => None
  end.

Definition nat_of_tok (t : tok) : option nat :=
  match t with
  | N x => if (Qden x =? 1)%positive && (0 <=? Qnum x)%Z then Some (Z.to_nat (Qnum x)) else None
  | _ => None
  end.

(** non-negative integers up to the closing parenthesis, which is consumed *)
Fixpoint nats_until_rp (ts : list tok) : option (list nat * list tok) :=
  match ts with
  | RP :: r => Some ([], r)
  | t :: r =>
      match nat_of_tok t with
      | Some n => match nats_until_rp r with Some (l, r') => Some (n :: l, r') | None => None end
      | None => None
      end
  | [] => None
  end.

Fixpoint triples_until_rp (ts : list tok) : option (list (Q * Q * Q) * list tok) :=
  match ts with
  | RP :: r => Some ([], r)
  | LP :: N a :: N b :: N c :: RP :: r =>
      match triples_until_rp r with Some (l, r') => Some ((a, b, c) :: l, r') | None => None end
  | _ => None
  end.

(** skip a balanced token sequence up to the parenthesis that closes the current level *)
Fixpoint skip_to_close (d : nat) (ts : list tok) : option (list tok) :=
  match ts with
  | [] => None
  | RP :: r => match d with 0 => Some r | S d' => skip_to_close d' r end
  | LP :: r => skip_to_close (S d) r
  | _ :: r => skip_to_close d r
  end.

Section Many.
  Variable A : Type.
  Variable p : parser A.
  Variable stop : tok -> bool.
  (** items until a token satisfying [stop]; that token is left in place *)
  Fixpoint many (fuel : nat) (ts : list tok) : option (list A * list tok) :=
    match fuel with
    | 0 => None
    | S f =>
        match ts with
        | [] => None
        | t :: _ =>
            if stop t then Some ([], ts)
            else match p ts with
                 | Some (x, r) => match many f r with Some (xs, r') => Some (x :: xs, r') | None => None end
                 | None => None
                 end
        end
    end.
End Many.
Arguments many {A} p stop fuel ts.

Definition expect (t : tok -> bool) (ts : list tok) : option (list tok) :=
  match ts with
  | x :: r => if t x then Some r else None
  | [] => None
  end.
Definition is_lp (t : tok) : bool := match t with LP => true | _ => false end.
Definition is_lb (t : tok) : bool := match t with LB => true | _ => false end.

Definition p_entry : parser entry := fun ts =>
  match ts with
  | W k :: r => match until_sc r with Some (v, r') => Some ((k, v), r') | None => None end
  | _ => None
  end.

Definition p_prop : parser (list tok) := until_sc.

Definition p_geom (fuel : nat) : parser ageom := fun ts =>
  match ts with
  | W n :: LB :: r =>
      match many p_prop is_rb fuel r with
      | Some (ps, RB :: r') => Some ((n, ps), r')
      | _ => None
      end
  | _ => None
  end.

Definition p_vec : parser pt := fun ts =>
  match ts with
  | LP :: N x :: N y :: N z :: RP :: r => Some ((x, y, z), r)
  | _ => None
  end.

Definition p_vertex : parser avertex := fun ts =>
  match ts with
  | W s :: r =>
      if String.eqb s "project" then
        match p_vec r with
        | Some (v, LP :: r') =>
            match words_until_rp r' with
            | Some (ls, r'') => Some (mkVertex v ls, r'')
            | None => None
            end
        | _ => None
        end
      else None
  | _ => match p_vec ts with Some (v, r) => Some (mkVertex v [], r) | None => None end
  end.

Definition p_gspec : parser gspec := fun ts =>
  match ts with
  | N e :: r => Some (GOne e, r)
  | LP :: r => match triples_until_rp r with Some (l, r') => Some (GMulti l, r') | None => None end
  | _ => None
  end.

Definition p_block (fuel : nat) : parser ablock := fun ts =>
  match ts with
  | W h :: LP :: r =>
      if String.eqb h "hex" then
        match nats_until_rp r with
        | Some (vids, r1) =>
            let '(zone, r2) := match r1 with W z :: r' => (Some z, r') | _ => (None, r1) end in
            match r2 with
            | LP :: r3 =>
                match nats_until_rp r3 with
                | Some (counts, W kw :: LP :: r4) =>
                    match many p_gspec is_rp fuel r4 with
                    | Some (gs, RP :: r5) => Some (mkBlock vids zone counts kw gs, r5)
                    | _ => None
                    end
                | _ => None
                end
            | _ => None
            end
        | None => None
        end
      else None
  | _ => None
  end.

Definition p_quad : parser (list nat) := fun ts =>
  match ts with
  | LP :: r => nats_until_rp r
  | _ => None
  end.

Definition p_face : parser (list nat * string) := fun ts =>
  match ts with
  | W s :: r =>
      if String.eqb s "project" then
        match p_quad r with
        | Some (qd, W l :: r') => Some ((qd, l), r')
        | _ => None
        end
      else None
  | _ => None
  end.

Definition p_patch (fuel : nat) : parser apatch := fun ts =>
  match ts with
  | W n :: LB :: W t :: W k :: SC :: r =>
      if String.eqb t "type" then
        match many p_prop (is_word "faces") fuel r with
        | Some (ss, W _ :: LP :: r1) =>
            match many p_quad is_rp fuel r1 with
            | Some (qs, RP :: SC :: RB :: r2) => Some (mkPatch n k ss qs, r2)
            | _ => None
            end
        | _ => None
        end
      else None
  | _ => None
  end.

Definition p_pair : parser (string * string) := fun ts =>
  match ts with
  | LP :: W a :: W b :: RP :: r => Some ((a, b), r)
  | _ => None
  end.

Definition p_default : parser (option (string * string)) := fun ts =>
  match ts with
  | W d :: r =>
      if String.eqb d "defaultPatch" then
        match r with
        | LB :: W a :: W n :: SC :: W b :: W k :: SC :: RB :: r' =>
            if String.eqb a "name" && String.eqb b "type" then Some (Some (n, k), r') else None
        | _ => None
        end
      else Some (None, ts)
  | _ => Some (None, ts)
  end.

Definition is_section_start (t : tok) : bool := is_word "geometry" t || is_word "vertices" t.

(** a keyword followed by a parenthesised list of items and [;] *)
Definition p_list {A} (kw : string) (p : parser A) (fuel : nat) : parser (list A) := fun ts =>
  match ts with
  | W k :: LP :: r =>
      if String.eqb k kw then
        match many p is_rp fuel r with
        | Some (xs, RP :: SC :: r') => Some (xs, r')
        | _ => None
        end
      else None
  | _ => None
  end.

Definition p_geometry (fuel : nat) : parser (list ageom) := fun ts =>
  match ts with
  | W g :: r =>
      if String.eqb g "geometry" then
        match r with
        | LB :: r1 =>
            match many (p_geom fuel) is_rb fuel r1 with
            | Some (gs, RB :: SC :: r2) => Some (gs, r2)
            | _ => None
            end
        | _ => None
        end
      else Some ([], ts)
  | _ => Some ([], ts)
  end.

Definition p_edges : parser unit := fun ts =>
  match ts with
  | W e :: LP :: r =>
      if String.eqb e "edges" then
        match skip_to_close 0 r with
        | Some (SC :: r') => Some (tt, r')
        | _ => None
        end
      else None
  | _ => None
  end.

Definition parse_with (fuel : nat) (ts : list tok) : option afile :=
  match ts with
  | W ff :: LB :: r0 =>
      if String.eqb ff "FoamFile" then
        match many p_entry is_rb fuel r0 with
        | Some (hd, RB :: r1) =>
          match many p_entry is_section_start fuel r1 with
          | Some (st, r2) =>
            match p_geometry fuel r2 with
            | Some (ge, r3) =>
              match p_list "vertices" p_vertex fuel r3 with
              | Some (vs, r4) =>
                match p_list "blocks" (p_block fuel) fuel r4 with
                | Some (bs, r5) =>
                  match p_edges r5 with
                  | Some (_, r6) =>
                    match p_list "faces" p_face fuel r6 with
                    | Some (fs, r7) =>
                      match p_list "boundary" (p_patch fuel) fuel r7 with
                      | Some (ps, r8) =>
                        match p_default r8 with
                        | Some (df, r9) =>
                          match p_list "mergePatchPairs" p_pair fuel r9 with
                          | Some (mg, []) => Some (mkFile hd st ge vs bs fs ps df mg)
                          | _ => None
                          end
                        | None => None
                        end
                      | None => None
                      end
                    | None => None
                    end
                  | None => None
                  end
                | None => None
                end
              | None => None
              end
            | None => None
            end
          | None => None
          end
        | _ => None
        end
      else None
  | _ => None
  end.

Definition parse (ts : list tok) : option afile := parse_with (S (List.length ts)) ts.
