(** Comparison helpers for the generated correspondence cases of C01/C02 (evaluated by vm_compute). *)
From Coq Require Import List Bool Arith.
From CB Require Import Model.Propagate.
Import ListNotations.

Inductive expected :=
| EOk (counts wire_counts : list (list nat)) | EUndefined | EInconsistent | ENoFuel | EOther.

Fixpoint nat_list_eqb (l m : list nat) : bool :=
  match l, m with
  | [], [] => true
  | x :: l', y :: m' => (x =? y) && nat_list_eqb l' m'
  | _, _ => false
  end.
Fixpoint nat_ll_eqb (l m : list (list nat)) : bool :=
  match l, m with
  | [], [] => true
  | x :: l', y :: m' => nat_list_eqb x y && nat_ll_eqb l' m'
  | _, _ => false
  end.

Definition agree (o : outcome) (e : expected) : bool :=
  match o, e with
  | Ok c w, EOk c' w' => nat_ll_eqb c c' && nat_ll_eqb w w'
  | Undefined, EUndefined => true
  | Inconsistent, EInconsistent => true
  | NoFuel, ENoFuel => true
  | _, _ => false
  end.

Definition run_case (bs : list blk) (co : list (wire * list wire)) (nb : list (axis * list axis)) : outcome :=
  run bs (o_of_list wire_eqb co) (o_of_list axis_eqb nb).

(** the same input under the insertion-order oracles *)
Definition run_ins (bs : list blk) : outcome := run bs (o_coin_ins bs) (o_nbrs_ins bs).

Definition case := (nat * list blk * list (wire * list wire) * list (axis * list axis) * expected)%type.
Definition bad_case (c : case) : bool :=
  let '(_, bs, co, nb, e) := c in negb (agree (run_case bs co nb) e).
Definition mismatching (cs : list case) : list nat :=
  map (fun c => fst (fst (fst (fst c)))) (filter bad_case cs).
