(** Laplacian smoothing (C15): executable model, no proofs (Model/C15_Smooth.v).

    Transcribed from /repo/src/classy_blocks/optimize:
      cell.py       CellBase.get_common_indexes / get_corner / get_common_side / add_neighbour / boundary
      junction.py   Junction.add_cell / add_neighbour / is_boundary
      grid.py       GridBase.__init__ (_bind_cell_neighbours, _bind_junction_cells, _bind_junction_neighbours)
      smoother.py   SmootherBase.__init__ (inner), fix_indexes, fix_points, smooth; Mesh/SketchSmoother.backport
      mapped.py     MappedSketch.positions (read-back of the faces)

    The cell type (side_indexes, edge_pairs) is a parameter; the check tabulates the real QuadCell and
    HexCell into Gen/C15/Tables.v.  Cells are index lists, identified by their position in the list
    (Python: object identity).  Coordinates are exact rationals; [np.average(points, axis=0)] acts on
    each coordinate column separately, so a point set is kept as three columns (xs, ys, zs) that are
    swept with the same schedule. *)
From Coq Require Import List Bool Arith ZArith QArith Qabs.
Import ListNotations.
Open Scope nat_scope.

Record celltype := { ct_sides : list (list nat); ct_edges : list (nat * nat) }.
Definition cell := list nat.

Definition memb (x : nat) (l : list nat) : bool := existsb (Nat.eqb x) l.

Fixpoint index_of (x : nat) (l : list nat) : nat :=
  match l with
  | [] => 0
  | y :: r => if x =? y then 0 else S (index_of x r)
  end.

(** Python [set(...)] of a list: one representative per value *)
Fixpoint dedup (l : list nat) : list nat :=
  match l with
  | [] => []
  | x :: r => if memb x r then dedup r else x :: dedup r
  end.

Definition set_eqb (l m : list nat) : bool :=
  forallb (fun x => memb x m) l && forallb (fun x => memb x l) m.

Definition enumerate {A} (l : list A) : list (nat * A) := combine (seq 0 (length l)) l.

(** ** cells *)

(** CellBase.get_common_indexes *)
Definition common (c1 c2 : cell) : list nat := dedup (filter (fun i => memb i c2) c1).

Fixpoint find_side (sides : list (list nat)) (corners : list nat) (i : nat) : option nat :=
  match sides with
  | [] => None
  | s :: r => if set_eqb s corners then Some i else find_side r corners (S i)
  end.

(** CellBase.get_common_side: the side (number) of [c1] shared with [c2]; None = NoCommonSidesError *)
Definition common_side (ct : celltype) (c1 c2 : cell) : option nat :=
  let cv := common c1 c2 in
  if length cv =? length (hd [] (ct_sides ct)) then
    find_side (ct_sides ct) (map (fun i => index_of i c1) cv) 0
  else None.

(** after GridBase._bind_cell_neighbours: [neighbours[side i]] of cell number [k] is not None *)
Definition side_has_neighbour (ct : celltype) (cells : list cell) (k : nat) (c : cell) (i : nat) : bool :=
  existsb (fun kc => negb (fst kc =? k) &&
                     match common_side ct c (snd kc) with Some i' => i' =? i | None => false end)
          (enumerate cells).

(** CellBase.boundary *)
Definition cell_boundary (ct : celltype) (cells : list cell) (k : nat) (c : cell) : list nat :=
  flat_map (fun isd => if side_has_neighbour ct cells k c (fst isd) then []
                       else map (fun a => nth a c 0) (snd isd))
           (enumerate (ct_sides ct)).

(** ** junctions *)

(** (cell, its boundary set) for every cell, computed once *)
Definition boundaries (ct : celltype) (cells : list cell) : list (cell * list nat) :=
  map (fun kc => (snd kc, cell_boundary ct cells (fst kc) (snd kc))) (enumerate cells).

(** Junction.is_boundary: some cell of the junction (add_cell: the cell contains the index) has the
    index in its boundary set *)
Definition is_boundary_in (bs : list (cell * list nat)) (j : nat) : bool :=
  existsb (fun cb => memb j (fst cb) && memb j (snd cb)) bs.
Definition is_boundary (ct : celltype) (cells : list cell) (j : nat) : bool :=
  is_boundary_in (boundaries ct cells) j.

(** CellConnection.indexes of every cell *)
Definition connections (ct : celltype) (c : cell) : list (nat * nat) :=
  map (fun ab => (nth (fst ab) c 0, nth (snd ab) c 0)) (ct_edges ct).

(** {x, y} == {j, t} as Python sets (j <> t) *)
Definition pair_set_eqb (x y j t : nat) : bool :=
  ((x =? j) && (y =? t)) || ((x =? t) && (y =? j)).

(** Junction.add_neighbour returns/records a connection *)
Definition connected_in (cc : list (cell * list (nat * nat))) (j t : nat) : bool :=
  existsb (fun c => memb j (fst c) && existsb (fun xy => pair_set_eqb (fst xy) (snd xy) j t) (snd c)) cc.

Definition cell_conns (ct : celltype) (cells : list cell) : list (cell * list (nat * nat)) :=
  map (fun c => (c, connections ct c)) cells.

(** Junction.neighbours after GridBase._bind_junction_neighbours (junctions visited in index order) *)
Definition nbrs_in (cc : list (cell * list (nat * nat))) (n j : nat) : list nat :=
  filter (fun t => negb (t =? j) && connected_in cc j t) (seq 0 n).
Definition nbrs (ct : celltype) (cells : list cell) (n j : nat) : list nat :=
  nbrs_in (cell_conns ct cells) n j.

(** the same list, computed from the few cells that contain [j] (equal to [nbrs]: Proofs/C15_Fast.v);
    the correspondence evaluates this one *)
Definition partners (ct : celltype) (cells : list cell) (j : nat) : list nat :=
  flat_map (fun c => if memb j c then
                       flat_map (fun ab => let x := nth (fst ab) c 0 in let y := nth (snd ab) c 0 in
                                           (if x =? j then [y] else []) ++ (if y =? j then [x] else []))
                                (ct_edges ct)
                     else []) cells.
Definition nbrs_fast (ct : celltype) (cells : list cell) (n j : nat) : list nat :=
  let ps := partners ct cells j in
  filter (fun t => negb (t =? j) && memb t ps) (seq 0 n).

(** ** the smoother *)

(** SmootherBase.inner *)
Definition inner (ct : celltype) (cells : list cell) (n : nat) : list nat :=
  let bs := boundaries ct cells in
  filter (fun j => negb (is_boundary_in bs j)) (seq 0 n).

(** the junctions a sweep visits (inner, not fixed), each with its neighbour list *)
Definition schedule (ct : celltype) (cells : list cell) (n : nat) (fixed : list nat) : list (nat * list nat) :=
  let cc := cell_conns ct cells in
  map (fun j => (j, nbrs_in cc n j)) (filter (fun j => negb (memb j fixed)) (inner ct cells n)).

Definition schedule_fast (ct : celltype) (cells : list cell) (n : nat) (fixed : list nat) : list (nat * list nat) :=
  map (fun j => (j, nbrs_fast ct cells n j)) (filter (fun j => negb (memb j fixed)) (inner ct cells n)).

Open Scope Q_scope.

Definition qsum (l : list Q) : Q := fold_right Qplus 0 l.
Definition qlen (l : list nat) : Q := inject_Z (Z.of_nat (length l)).

(** np.average(near_points, axis=0), one coordinate ([Qred] only normalises the fraction) *)
Definition average (s : list Q) (nb : list nat) : Q :=
  Qred (qsum (map (fun t => nth t s 0) nb) / qlen nb).

Fixpoint set_nth (s : list Q) (j : nat) (v : Q) : list Q :=
  match s, j with
  | [], _ => []
  | _ :: r, O => v :: r
  | x :: r, S j' => x :: set_nth r j' v
  end.

(** grid.points[junction.index] = average(neighbours), in place *)
Definition step (s : list Q) (jn : nat * list nat) : list Q :=
  set_nth s (fst jn) (average s (snd jn)).

Definition sweep (sched : list (nat * list nat)) (s : list Q) : list Q := fold_left step sched s.

Fixpoint iterate (k : nat) (sched : list (nat * list nat)) (s : list Q) : list Q :=
  match k with
  | O => s
  | S k' => iterate k' sched (sweep sched s)
  end.

Definition pts := (list Q * list Q * list Q)%type.
Definition pt := (Q * Q * Q)%type.

Definition pt_at (p : pts) (j : nat) : pt :=
  let '(xs, ys, zs) := p in (nth j xs 0, nth j ys 0, nth j zs 0).

Definition sqdist (a b : pt) : Q :=
  let '(ax, ay, az) := a in let '(bx, b_y, bz) := b in
  (ax - bx) * (ax - bx) + (ay - b_y) * (ay - b_y) + (az - bz) * (az - bz).

Definition Qlt_b (x y : Q) : bool := negb (Qle_bool y x).

(** SmootherBase.fix_points: every junction closer than TOL to one of the given points
    ([tol2] = TOL squared) *)
Definition fix_points (n : nat) (p : pts) (targets : list pt) (tol2 : Q) : list nat :=
  filter (fun j => existsb (fun t => Qlt_b (sqdist t (pt_at p j)) tol2) targets) (seq 0 n).

Record grid := { g_ct : celltype; g_cells : list cell; g_n : nat }.

(** SmootherBase.smooth on the grid's point array *)
Definition smooth (g : grid) (fixed_idx : list nat) (targets : list pt) (tol2 : Q) (iters : nat) (p : pts) : pts :=
  let fixed := fixed_idx ++ fix_points (g_n g) p targets tol2 in
  let sch := schedule (g_ct g) (g_cells g) (g_n g) fixed in
  let '(xs, ys, zs) := p in
  (iterate iters sch xs, iterate iters sch ys, iterate iters sch zs).

Definition smooth_fast (g : grid) (fixed_idx : list nat) (targets : list pt) (tol2 : Q) (iters : nat) (p : pts) : pts :=
  let fixed := fixed_idx ++ fix_points (g_n g) p targets tol2 in
  let sch := schedule_fast (g_ct g) (g_cells g) (g_n g) fixed in
  let '(xs, ys, zs) := p in
  (iterate iters sch xs, iterate iters sch ys, iterate iters sch zs).

(** ** copy back *)

(** SketchSmoother.backport: face [i] receives the grid points of quad [i];
    MeshSmoother.backport: vertex [i] receives grid point [i] (the "quads" are then [[0]; [1]; ...]) *)
Definition backport {A} (d : A) (pos : list A) (quads : list (list nat)) : list (list A) :=
  map (fun q => map (fun i => nth i pos d) q) quads.

(** MappedSketch.positions: point [i] is read from the first face corner that refers to it *)
Definition sketch_positions {A} (d : A) (faces : list (list A)) (quads : list (list nat)) : list A :=
  let flat := concat quads in
  let allp := concat faces in
  map (fun i => nth (index_of i flat) allp d) (seq 0 (S (list_max flat))).

(** ** correspondence helpers (used by the generated case files) *)
Definition close (tol x y : Q) : bool := Qle_bool (Qabs (x - y)) tol.

Definition pt_close (tol : Q) (a b : pt) : bool :=
  let '(ax, ay, az) := a in let '(bx, b_y, bz) := b in
  close tol ax bx && close tol ay b_y && close tol az bz.

Record case := {
  c_id : nat;
  c_grid : grid;
  c_fixed : list nat;
  c_targets : list pt;
  c_tol2 : Q;
  c_iters : nat;
  c_in : pts;
  c_quads : list (list nat);         (* what is observed: per face/vertex the grid indices *)
  c_out : list (list pt);            (* implementation: face corner points / vertex positions after smooth() *)
  c_pos : list pt;                   (* implementation: sketch.positions after smooth() ([] for a mesh) *)
  c_inner : list nat;                (* implementation: smoother.inner indices *)
  c_nbrs : list (nat * list nat);    (* implementation: neighbour index lists of some junctions *)
  c_tol : Q
}.

Definition list_eqb (l m : list nat) : bool :=
  (length l =? length m)%nat && forallb (fun p => (fst p =? snd p)%nat) (combine l m).

Definition agree (c : case) : bool :=
  let g := c_grid c in
  let p := smooth_fast g (c_fixed c) (c_targets c) (c_tol2 c) (c_iters c) (c_in c) in
  let rows := map (pt_at p) (seq 0 (g_n g)) in
  let faces := backport (0, 0, 0) rows (c_quads c) in
  (length faces =? length (c_out c))%nat
  && forallb (fun fe => (length (fst fe) =? length (snd fe))%nat
                        && forallb (fun ab => pt_close (c_tol c) (fst ab) (snd ab)) (combine (fst fe) (snd fe)))
             (combine faces (c_out c))
  && (match c_pos c with
      | [] => true
      | ps => let mp := sketch_positions (0, 0, 0) faces (c_quads c) in
              (length mp =? length ps)%nat
              && forallb (fun ab => pt_close (c_tol c) (fst ab) (snd ab)) (combine mp ps)
      end)
  && list_eqb (inner (g_ct g) (g_cells g) (g_n g)) (c_inner c)
  && forallb (fun jn => list_eqb (nbrs_fast (g_ct g) (g_cells g) (g_n g) (fst jn)) (snd jn)) (c_nbrs c).

Definition mismatching (cs : list case) : list nat := map c_id (filter (fun c => negb (agree c)) cs).
