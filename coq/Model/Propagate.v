(** Executable model of grading (count) propagation: Mesh.grade =
    BlockList.grade_blocks ; propagate_gradings ; check_consistency
    (items/wires/{wire,axis,manager}.py, items/block.py, lists/block_list.py) -- DESIGN Appendix A.

    Blocks are 8 vertex ids plus, per axis, the list of user chops.  In this file a chop is reduced to
    its cell count (the count is frozen by Chop.copy_preserving, so every copy of a chop carries it);
    the payload (expansion, preserve) is added in Model/PropagateG.v for C04.  Every place where the
    code iterates over a container whose order is not fixed by the script (Axis.neighbours,
    Wire.coincidents) takes its order from an oracle argument. *)
From Coq Require Import List Bool Arith Lia.
Import ListNotations.

(** pairs of corner indexes along the three axes (constants.AXIS_PAIRS; compared with the tabulated
    value and with Base/Hex.v in the property files) *)
Definition axis_pairs : list (list (nat * nat)) :=
  [ [(0, 1); (3, 2); (7, 6); (4, 5)];
    [(0, 3); (1, 2); (5, 6); (4, 7)];
    [(0, 4); (1, 5); (2, 6); (3, 7)] ].

Record blk := { verts : list nat; uchops : list (list nat) }.   (* uchops: per axis, counts of the user chops *)

Definition wire := (nat * nat * nat)%type.   (* block, axis, k < 4 *)
Definition axis := (nat * nat)%type.         (* block, axis *)
Definition w_blk (w : wire) : nat := fst (fst w).
Definition w_axis (w : wire) : axis := (fst (fst w), snd (fst w)).

Definition wires_of_axis (x : axis) : list wire := map (fun k => (fst x, snd x, k)) [0; 1; 2; 3].
Definition axes_of_block (b : nat) : list axis := map (fun a => (b, a)) [0; 1; 2].
Definition all_axes (n : nat) : list axis := flat_map axes_of_block (seq 0 n).
Definition all_wires (n : nat) : list wire := flat_map wires_of_axis (all_axes n).

Definition wire_eqb (w1 w2 : wire) : bool :=
  (fst (fst w1) =? fst (fst w2)) && (snd (fst w1) =? snd (fst w2)) && (snd w1 =? snd w2).
Definition axis_eqb (x y : axis) : bool := (fst x =? fst y) && (snd x =? snd y).

Section WithBlocks.
  Variable bs : list blk.

  Definition nblocks : nat := length bs.
  Definition vert (b c : nat) : nat := nth c (verts (nth b bs {| verts := []; uchops := [] |})) 0.
  Definition user_chops (x : axis) : list nat :=
    nth (snd x) (uchops (nth (fst x) bs {| verts := []; uchops := [] |})) [].
  Definition chopped (x : axis) : bool := negb (match user_chops x with [] => true | _ => false end).

  Definition ends (w : wire) : nat * nat :=
    let '(b, a, k) := w in
    let '(c1, c2) := nth k (nth a axis_pairs []) (0, 0) in (vert b c1, vert b c2).

  Definition pair_eqb (p q : nat * nat) : bool := (fst p =? fst q) && (snd p =? snd q).
  Definition swap (p : nat * nat) : nat * nat := (snd p, fst p).

  (** Wire.is_coincident (vertex-index equality, either direction) between wires of different blocks *)
  Definition coincident (w1 w2 : wire) : bool :=
    negb (w_blk w1 =? w_blk w2) && (pair_eqb (ends w1) (ends w2) || pair_eqb (ends w1) (swap (ends w2))).
  Definition aligned (w1 w2 : wire) : bool := pair_eqb (ends w1) (ends w2).

  (** the coincident wires / neighbour axes as the pairwise construction of
      BlockList.update_neighbours builds them *)
  Definition coin_set (w : wire) : list wire := filter (coincident w) (all_wires nblocks).
  Definition is_nbr (x y : axis) : bool :=
    negb (fst x =? fst y)
    && existsb (fun w => existsb (fun v => coincident w v) (wires_of_axis y)) (wires_of_axis x).
  Definition nbr_set (x : axis) : list axis := filter (is_nbr x) (all_axes nblocks).

  (** Axis.is_aligned: alignment of the first coincident wire pair (this-major order) *)
  Definition axis_aligned (x y : axis) : bool :=
    match flat_map (fun w => map (fun v => (w, v)) (filter (coincident w) (wires_of_axis y))) (wires_of_axis x) with
    | (w, v) :: _ => aligned w v
    | [] => true
    end.

  (** * state *)
  Record st := {
    g : wire -> list nat;          (* section counts of the wire's grading; [] = undefined *)
    ach : axis -> list nat         (* chops held by the axis' manager (user chops or copies) *)
  }.

  Definition upd_g (f : wire -> list nat) (w : wire) (v : list nat) : wire -> list nat :=
    fun u => if wire_eqb u w then v else f u.
  Definition upd_a (f : axis -> list nat) (x : axis) (v : list nat) : axis -> list nat :=
    fun y => if axis_eqb y x then v else f y.

  Definition init : st := {| g := fun _ => []; ach := user_chops |}.

  Definition w_defined (s : st) (w : wire) : bool := negb (match g s w with [] => true | _ => false end).
  Definition a_defined (s : st) (x : axis) : bool := forallb (w_defined s) (wires_of_axis x).
  Definition b_defined (s : st) (b : nat) : bool := forallb (a_defined s) (axes_of_block b).

  (** oracles: iteration order of Wire.coincidents and Axis.neighbours *)
  Variable o_coin : wire -> list wire.
  Variable o_nbrs : axis -> list axis.

  (** WirePropagateManager.copy_neighbours for one wire: every defined coincident overwrites *)
  Definition copy_wire (s : st) (w : wire) : st :=
    fold_left (fun s c =>
      if w_defined s c
      then {| g := upd_g (g s) w (if aligned c w then g s c else rev (g s c)); ach := ach s |}
      else s) (o_coin w) s.

  (** WirePropagateManager.propagate_grading: wires still undefined get the axis' chops *)
  Definition fill_wire (x : axis) (s : st) (w : wire) : st :=
    if w_defined s w then s else {| g := upd_g (g s) w (g s w ++ ach s x); ach := ach s |}.

  Definition grade_axis (s : st) (x : axis) : st :=
    if chopped x then
      (* WireChopManager.grade: every wire gets a count-preserving copy of every chop (appended) *)
      fold_left (fun s w => {| g := upd_g (g s) w (g s w ++ ach s x); ach := ach s |}) (wires_of_axis x) s
    else
      let s1 := fold_left copy_wire (wires_of_axis x) s in
      fold_left (fill_wire x) (wires_of_axis x) s1.

  Definition grade_block (s : st) (b : nat) : st := fold_left grade_axis (axes_of_block b) s.
  Definition grade_blocks (s : st) : st := fold_left grade_block (seq 0 nblocks) s.

  (** Axis.copy_grading: chops of the first defined neighbour that holds chops *)
  Definition has_chops (s : st) (x : axis) : bool := negb (match ach s x with [] => true | _ => false end).
  Definition copy_axis (s : st) (x : axis) : st * bool :=
    if a_defined s x then (s, false)
    else
      match find (fun y => a_defined s y && has_chops s y) (o_nbrs x) with
      | Some y =>
          let cs := if axis_aligned y x then ach s y else rev (ach s y) in
          let s1 := {| g := g s; ach := upd_a (ach s) x (ach s x ++ cs) |} in
          (grade_axis s1 x, true)
      | None => (s, false)
      end.

  (** Block.copy_grading *)
  Definition copy_block (s : st) (b : nat) : st * bool :=
    if b_defined s b then (s, false)
    else fold_left (fun sb x => let '(s', u) := copy_axis (fst sb) x in (s', u || snd sb)) (axes_of_block b) (s, false).

  (** one execution of the body of the while loop of BlockList.propagate_gradings over the
      (ascending) work list; returns the new state, the new work list and the progress flag *)
  Fixpoint scan (s : st) (before todo : list nat) (updated : bool) : st * list nat * bool :=
    match todo with
    | [] => (s, before, updated)
    | i :: rest =>
        if b_defined s i then (s, before ++ rest, true)
        else let '(s', u) := copy_block s i in scan s' (before ++ [i]) rest (u || updated)
    end.

  Inductive loop_result := Done (s : st) | Stuck (s : st) (undef : list nat) | OutOfFuel.

  Fixpoint propagate (fuel : nat) (s : st) (undef : list nat) : loop_result :=
    match undef with
    | [] => Done s
    | _ =>
        match fuel with
        | 0 => OutOfFuel
        | S f =>
            let '(s', undef', updated) := scan s [] undef false in
            if updated then propagate f s' undef' else
              match undef' with [] => Done s' | _ => Stuck s' undef' end
        end
    end.

  (** * consistency check (WireManagerBase.check_consistency): the four wires of an axis carry the
      same count and every wire carries the count of each coincident wire ... *)
  Definition total (l : list nat) : nat := fold_right Nat.add 0 l.
  Definition wcount (s : st) (w : wire) : nat := total (g s w).

  Definition axis_consistent (s : st) (x : axis) : bool :=
    forallb (fun w => wcount s w =? wcount s (fst x, snd x, 0)) (wires_of_axis x)
    && forallb (fun w => forallb (fun c => wcount s c =? wcount s w) (coin_set w)) (wires_of_axis x).
  Definition consistent_counts (s : st) : bool := forallb (axis_consistent s) (all_axes nblocks).

  (** ... and (since the repair of the C04 defect) every wire carries the same section list as each
      coincident wire, reversed when the two run in opposite directions *)
  Definition nl_eqb (l m : list nat) : bool :=
    (length l =? length m) && forallb (fun p => fst p =? snd p) (combine l m).
  Definition axis_agree (s : st) (x : axis) : bool :=
    forallb (fun w => forallb (fun c => nl_eqb (g s w) (if aligned c w then g s c else rev (g s c))) (coin_set w))
            (wires_of_axis x).
  Definition gradings_agree (s : st) : bool := forallb (axis_agree s) (all_axes nblocks).
  Definition consistent (s : st) : bool := consistent_counts s && gradings_agree s.

  (** the count written for a block direction (Axis.count) *)
  Definition written (s : st) (x : axis) : nat :=
    if chopped x then total (user_chops x) else wcount s (fst x, snd x, 0).

  Inductive outcome :=
  | Ok (counts : list (list nat)) (wire_counts : list (list nat))
  | Undefined | Inconsistent | NoFuel | BadOracle.

  (** the oracles must be orderings of the coincident / neighbour sets *)
  Definition perm_of {A} (eqb : A -> A -> bool) (l m : list A) : bool :=
    (length l =? length m) && forallb (fun x => existsb (eqb x) m) l && forallb (fun x => existsb (eqb x) l) m.
  Definition oracle_ok : bool :=
    forallb (fun w => perm_of wire_eqb (o_coin w) (coin_set w)) (all_wires nblocks)
    && forallb (fun x => perm_of axis_eqb (o_nbrs x) (nbr_set x)) (all_axes nblocks).

  Definition fuel0 : nat := 4 * nblocks + 2.

  Definition run : outcome :=
    if negb oracle_ok then BadOracle else
    match propagate fuel0 (grade_blocks init) (seq 0 nblocks) with
    | OutOfFuel => NoFuel
    | Stuck _ _ => Undefined
    | Done s =>
        if consistent s
        then Ok (map (fun b => map (written s) (axes_of_block b)) (seq 0 nblocks))
                (map (fun b => map (wcount s) (flat_map wires_of_axis (axes_of_block b))) (seq 0 nblocks))
        else Inconsistent
    end.

  (** final state, for the theorems *)
  Definition final : option st :=
    match propagate fuel0 (grade_blocks init) (seq 0 nblocks) with Done s => Some s | _ => None end.
End WithBlocks.

(** insertion-order oracles: the order in which BlockList.update_neighbours meets the wires/axes
    (existing blocks in list order, then their wires in wire_list order) *)
Definition o_coin_ins (bs : list blk) (w : wire) : list wire := coin_set bs w.
Definition o_nbrs_ins (bs : list blk) (x : axis) : list axis := nbr_set bs x.

(** oracles given as association lists by the correspondence harness *)
Definition o_of_list {K V} (eqb : K -> K -> bool) (l : list (K * list V)) (k : K) : list V :=
  match find (fun p => eqb (fst p) k) l with Some p => snd p | None => [] end.
