(** C17 - clamps and links, transcribed from

      src/classy_blocks/util/functions.py      unit_vector, rotation_matrix/rotate, mirror_matrix/mirror,
                                               angle_between, point_to_line_distance
      src/classy_blocks/optimize/clamps/*.py   ClampBase, LineClamp, RadialClamp, CurveClamp, PlaneClamp,
                                               ParametricSurfaceClamp, FreeClamp
      src/classy_blocks/optimize/links.py      TranslationLink, RotationLink, SymmetryLink

    Executable (real-valued) definitions only, no proofs.  numpy element-wise float arithmetic is
    modelled by real arithmetic; [scipy.linalg.expm] of the skew matrix [cross(eye(3), k*theta)] is
    modelled by Rodrigues' formula ([rot_cs]); [scipy.optimize.minimize] is an explicit argument
    ([minimise]) of [clamp_init]; the in-place subtraction of [functions.mirror] is made explicit as a
    second result, "the value of the argument array after the call", selected by the flag [inplace]
    which the check tabulates from the working tree on every run (Gen/C17/Flags.v). *)
From Coq Require Import Reals List.
From CB Require Import Base.Vec3.
Import ListNotations.
Open Scope R_scope.

(** ** util/functions.py *)

(** [unit_vector]: vect / norm(vect) *)
Definition unit (a : vec) : vec := vscale (/ norm a) a.

(** [rotation_matrix(axis, theta) . v] for a unit axis [k], as a function of (cos theta, sin theta) *)
Definition rot_cs (c s : R) (k v : vec) : vec :=
  vadd (vadd (vscale c v) (vscale s (cross k v))) (vscale ((1 - c) * dot k v) k).

(** [rotate(point, angle, axis, origin)] *)
Definition rotate (p : vec) (angle : R) (axis origin : vec) : vec :=
  vadd (rot_cs (cos angle) (sin angle) (unit axis) (vsub p origin)) origin.

(** [point.dot(mirror_matrix(n))], entry by entry as in the code *)
Definition mirror_mat_apply (n p : vec) : vec :=
  ( vx p * (1 - 2 * (vx n * vx n)) + vy p * (- 2 * vx n * vy n) + vz p * (- 2 * vx n * vz n),
    vx p * (- 2 * vx n * vy n) + vy p * (1 - 2 * (vy n * vy n)) + vz p * (- 2 * vy n * vz n),
    vx p * (- 2 * vx n * vz n) + vy p * (- 2 * vy n * vz n) + vz p * (1 - 2 * (vz n * vz n)) ).

(** [mirror(point, normal, origin)]: (returned point, value of the argument array afterwards).
    [inplace = true] is the behaviour of [point -= origin] on an ndarray argument. *)
Definition mirror (inplace : bool) (p n o : vec) : vec * vec :=
  let q := vsub p o in
  (vadd (mirror_mat_apply (unit n) q) o, if inplace then q else p).

(** [np.clip(x, -1, 1)] *)
Definition clip1 (x : R) : R := Rmin (Rmax x (-1)) 1.

(** [angle_between] *)
Definition angle_between (v1 v2 : vec) : R := acos (clip1 (dot (unit v1) (unit v2))).

(** [point_to_line_distance(origin, direction, point)] *)
Definition point_to_line_distance (origin direction point : vec) : R :=
  norm (cross (vsub point origin) direction) / norm direction.

(** ** clamps *)

(** [ClampBase]: the state is (params, position); [fn] is the position function, [minimise] the
    black box [scipy.optimize.minimize(distance_from_vertex, initial_guess, bounds, tol).x] *)
Definition clamp (P : Type) : Type := (P * vec)%type.
Definition clamp_params {P} (c : clamp P) : P := fst c.
Definition clamp_position {P} (c : clamp P) : vec := snd c.

Definition clamp_distance {P} (fn : P -> vec) (pos : vec) (q : P) : R := norm (vsub pos (fn q)).

Definition clamp_update {P} (fn : P -> vec) (c : clamp P) (q : P) : clamp P := (q, fn q).

Definition clamp_init {P} (fn : P -> vec) (minimise : (P -> R) -> P) (pos : vec) : clamp P :=
  let q := minimise (clamp_distance fn pos) in clamp_update fn (q, pos) q.

(** LineClamp *)
Definition line_pos (p1 p2 : vec) (t : R) : vec := vadd p1 (vscale t (unit (vsub p2 p1))).
Definition line_default_bounds (p1 p2 : vec) : R * R := (0, norm (vsub p2 p1)).

(** PlaneClamp; [r] is the value of [np.random.random(3)] *)
Definition plane_u (n r : vec) : vec := unit (cross (unit (vadd (unit n) r)) (unit n)).
Definition plane_v (n r : vec) : vec := unit (cross (plane_u n r) (unit n)).
Definition plane_pos (point n r : vec) (uv : R * R) : vec :=
  vadd (vadd point (vscale (fst uv) (plane_u n r))) (vscale (snd uv) (plane_v n r)).

(** RadialClamp: [rotate(initial_point, params[0] / radius, normal, center)].
    [radial_pos_k] has the angle per unit of parameter as an argument (the property does not
    depend on it); [radial_pos] is the code's choice [1 / radius]. *)
Definition radial_radius (p0 center normal : vec) : R := point_to_line_distance center normal p0.
Definition radial_pos_k (p0 center normal : vec) (k t : R) : vec := rotate p0 (k * t) normal center.
Definition radial_pos (p0 center normal : vec) (t : R) : vec :=
  rotate p0 (t / radial_radius p0 center normal) normal center.

(** CurveClamp / ParametricSurfaceClamp / FreeClamp: the declared function itself *)
Definition curve_pos (g : R -> vec) (t : R) : vec := g t.
Definition surface_pos (g : R -> R -> vec) (uv : R * R) : vec := g (fst uv) (snd uv).
Definition free_pos (xyz : vec) : vec := xyz.

(** closed forms of the closest parameters (what the minimiser is expected to find) *)
Definition clipR (lo hi x : R) : R := Rmax lo (Rmin hi x).
Definition line_closest_t (p1 p2 pos : vec) (lo hi : R) : R :=
  clipR lo hi (dot (vsub pos p1) (unit (vsub p2 p1))).
Definition plane_closest_uv (point n r pos : vec) : R * R :=
  (dot (vsub pos point) (plane_u n r), dot (vsub pos point) (plane_v n r)).
Definition plane_closest_point (point n pos : vec) : vec :=
  vsub pos (vscale (dot (vsub pos point) (unit n)) (unit n)).

(** component-wise closeness, used by the correspondence goals of the check *)
Definition vclose (a b : vec) (tol : R) : Prop :=
  Rabs (vx a - vx b) <= tol /\ Rabs (vy a - vy b) <= tol /\ Rabs (vz a - vz b) <= tol.

(** ** links: a link is driven by [Move p] (the optimizer assigns [link.leader = p]) and [Update] *)
Inductive lop : Type := Move (p : vec) | Update.

(** TranslationLink: (leader, follower, vector) *)
Definition tlink : Type := (vec * vec * vec)%type.
Definition tl_leader (s : tlink) : vec := fst (fst s).
Definition tl_follower (s : tlink) : vec := snd (fst s).
Definition tl_vector (s : tlink) : vec := snd s.
Definition tl_init (l f : vec) : tlink := (l, f, vsub f l).
Definition tl_step (s : tlink) (op : lop) : tlink :=
  match op with
  | Move p => (p, tl_follower s, tl_vector s)
  | Update => (tl_leader s, vadd (tl_leader s) (tl_vector s), tl_vector s)
  end.
Definition tl_run (s : tlink) (ops : list lop) : tlink := fold_left tl_step ops s.

(** RotationLink: (leader, follower) and the constants (origin, unit axis, original leader radius,
    original follower) *)
Record rconst : Type := { rc_origin : vec; rc_axis : vec; rc_r0 : vec; rc_f0 : vec }.
Definition rlink : Type := (vec * vec * rconst)%type.
Definition rl_leader (s : rlink) : vec := fst (fst s).
Definition rl_follower (s : rlink) : vec := snd (fst s).
Definition rl_const (s : rlink) : rconst := snd s.

Definition rl_height (o a p : vec) : vec := vscale (dot (vsub p o) a) a.
Definition rl_radius (o a p : vec) : vec := vsub (vsub p o) (rl_height o a p).

(** the state the constructor builds; None = ValueError("Leader and rotation axis are coincident!") *)
Definition rl_mk (l f axis o : vec) : rlink :=
  let a := unit axis in
  (l, f, {| rc_origin := o; rc_axis := a; rc_r0 := rl_radius o a l; rc_f0 := f |}).
Definition rl_init (tol : R) (l f axis o : vec) : option rlink :=
  if Rlt_dec (norm (rc_r0 (rl_const (rl_mk l f axis o)))) tol then None else Some (rl_mk l f axis o).

Definition rl_angle (r0 r1 a : vec) : R :=
  let ang := angle_between r0 r1 in
  if Rlt_dec (dot (cross r0 r1) a) 0 then - ang else ang.

Definition rl_transform (k : rconst) (leader : vec) : vec :=
  let r1 := rl_radius (rc_origin k) (rc_axis k) leader in
  rotate (rc_f0 k) (rl_angle (rc_r0 k) r1 (rc_axis k)) (rc_axis k) (rc_origin k).

Definition rl_step (s : rlink) (op : lop) : rlink :=
  match op with
  | Move p => (p, rl_follower s, rl_const s)
  | Update => (rl_leader s, rl_transform (rl_const s) (rl_leader s), rl_const s)
  end.
Definition rl_run (s : rlink) (ops : list lop) : rlink := fold_left rl_step ops s.

(** the same transform with cosine and sine of the signed angle in closed form (no acos); equal to
    [rl_transform] by Proofs/C17_ClampLink.v [rl_transform_cs_eq]; this is the form the
    correspondence evaluates with [interval] *)
Definition rl_cos (r0 r1 : vec) : R := dot r0 r1 / (norm r0 * norm r1).
Definition rl_sin (r0 r1 a : vec) : R := dot (cross r0 r1) a / (norm r0 * norm r1).
Definition rl_transform_cs (k : rconst) (leader : vec) : vec :=
  let r1 := rl_radius (rc_origin k) (rc_axis k) leader in
  vadd (rot_cs (rl_cos (rc_r0 k) r1) (rl_sin (rc_r0 k) r1 (rc_axis k)) (unit (rc_axis k))
               (vsub (rc_f0 k) (rc_origin k))) (rc_origin k).

Definition rl_step_cs (s : rlink) (op : lop) : rlink :=
  match op with
  | Move p => (p, rl_follower s, rl_const s)
  | Update => (rl_leader s, rl_transform_cs (rl_const s) (rl_leader s), rl_const s)
  end.
Definition rl_run_cs (s : rlink) (ops : list lop) : rlink := fold_left rl_step_cs ops s.

(** SymmetryLink: (leader, follower) and the constants (normal, origin).  The constructor calls
    [transform()] once and discards the result; [transform] = [mirror(self.leader, ...)] *)
Definition slink : Type := (vec * vec * (vec * vec))%type.
Definition sl_leader (s : slink) : vec := fst (fst s).
Definition sl_follower (s : slink) : vec := snd (fst s).
Definition sl_normal (s : slink) : vec := fst (snd s).
Definition sl_origin (s : slink) : vec := snd (snd s).
Definition sl_init (inplace : bool) (l f n o : vec) : slink :=
  (snd (mirror inplace l n o), f, (n, o)).
Definition sl_step (inplace : bool) (s : slink) (op : lop) : slink :=
  match op with
  | Move p => (p, sl_follower s, snd s)
  | Update => let m := mirror inplace (sl_leader s) (sl_normal s) (sl_origin s) in
              (snd m, fst m, snd s)
  end.
Definition sl_run (inplace : bool) (s : slink) (ops : list lop) : slink := fold_left (sl_step inplace) ops s.

(** the mathematical mirror image of [p] in the plane through [o] with (any non-zero) normal [n] *)
Definition reflect (p n o : vec) : vec :=
  vsub p (vscale (2 * dot (vsub p o) n / norm2 n) n).
