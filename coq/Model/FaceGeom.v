(** Face.center / Face.normal (un-normalised) transcribed from construct/flat/face.py:
    the quadrangle is divided into 4 triangles joining at the face centre; the normal is the
    average of the triangle normals (then made a unit vector by the code). *)
From Coq Require Import Reals.
From CB Require Import Base.Vec3.
Open Scope R_scope.

Definition centre4 (p0 p1 p2 p3 : vec) : vec := vscale (1 / 4) (vadd (vadd p0 p1) (vadd p2 p3)).

Definition face_normal_raw (p0 p1 p2 p3 : vec) : vec :=
  let c := centre4 p0 p1 p2 p3 in
  vscale (1 / 4)
    (vadd (vadd (cross (vsub p0 c) (vsub p1 c)) (cross (vsub p1 c) (vsub p2 c)))
          (vadd (cross (vsub p2 c) (vsub p3 c)) (cross (vsub p3 c) (vsub p0 c)))).
