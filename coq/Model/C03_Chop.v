(** C03 - the user-facing fields of classy_blocks/grading/chop.py::Chop as a record, and the field logic of
    Chop.__post_init__, Chop.invert and Chop.copy_preserving (no proofs here).

    The record has the dataclass' seven fields in the dataclass' order.  [count] is the python number the user
    passed (an int or a float, read as a real); [int()] is truncation.  [None] = python None.
    Gen/C03/ChopSource.v (generated on every run from the working tree) states the three methods over this
    record; Proofs/C03_ChopSourceEq.v proves them equal to the definitions below and ties those to
    [post_init] / [invert] of Model/C03_Relations.v through [data_of]. *)
From Coq Require Import Reals ZArith Bool.
From Flocq Require Import Core.Raux.
From CB Require Import Model.C03_Relations.
Open Scope R_scope.

(** ChopPreserveType = Literal["start_size", "end_size", "c2c_expansion"] *)
Inductive ptag := PStart | PEnd | PC2c.

Record chop := mk_chop {
  c_length_ratio : R;
  c_start_size : option R;
  c_c2c_expansion : option R;
  c_count : option R;
  c_end_size : option R;
  c_total_expansion : option R;
  c_preserve : ptag }.

(** the five quantities of the closure loop, count read through int() *)
Definition data_of (c : chop) : data :=
  mk_data (option_map pyint (c_count c)) (c_total_expansion c) (c_c2c_expansion c) (c_start_size c) (c_end_size c).

Definition opt1 {A : Type} (x : option A) : nat := match x with Some _ => 1 | None => 0 end.
Definition chop_n_given (c : chop) : nat :=
  opt1 (c_start_size c) + opt1 (c_end_size c) + opt1 (c_count c) + opt1 (c_total_expansion c) + opt1 (c_c2c_expansion c).

(** count can only be an integer, at least 1 *)
Definition norm_count (x : R) : R := IZR (Z.max (pyint x) 1).

(** Chop.__post_init__ : fewer than two parameters => c2c_expansion = 1 (unless given); count normalised *)
Definition chop_post_init (c : chop) : chop :=
  let c2c := if (chop_n_given c <? 2)%nat
             then match c_c2c_expansion c with None => Some 1 | Some r => Some r end
             else c_c2c_expansion c in
  mk_chop (c_length_ratio c) (c_start_size c) c2c (option_map norm_count (c_count c)) (c_end_size c)
          (c_total_expansion c) (c_preserve c).

Definition swap_tag (t : ptag) : ptag := match t with PStart => PEnd | PEnd => PStart | PC2c => PC2c end.

(** Chop.invert : sizes swapped, ratios replaced by their reciprocals, the preserved end is now the other one *)
Definition chop_invert (c : chop) : chop :=
  mk_chop (c_length_ratio c) (c_end_size c) (option_map Rinv (c_c2c_expansion c)) (c_count c) (c_start_size c)
          (option_map Rinv (c_total_expansion c)) (swap_tag (c_preserve c)).

(** python: 1 / 0.0 raises ZeroDivisionError *)
Definition opt_nonzero (x : option R) : bool := match x with Some v => negb (Reqb v 0) | None => true end.
Definition ratios_nonzero (c : chop) : bool := opt_nonzero (c_c2c_expansion c) && opt_nonzero (c_total_expansion c).
Definition chop_invert_opt (c : chop) : option chop := if ratios_nonzero c then Some (chop_invert c) else None.

Definition tag_get (t : ptag) (c : chop) : option R :=
  match t with PStart => c_start_size c | PEnd => c_end_size c | PC2c => c_c2c_expansion c end.
Definition only (t want : ptag) (v : option R) : option R :=
  match t, want with PStart, PStart => v | PEnd, PEnd => v | PC2c, PC2c => v | _, _ => None end.

(** Chop.copy_preserving before the optional invert: count from the results, the four grading fields cleared, the
    preserved one taken from the results, then the constructor's __post_init__ *)
Definition chop_copy_base (c results : chop) : chop :=
  let v := tag_get (c_preserve c) results in
  chop_post_init (mk_chop (c_length_ratio c) (only (c_preserve c) PStart v) (only (c_preserve c) PC2c v)
                          (c_count results) (only (c_preserve c) PEnd v) None (c_preserve c)).
Definition chop_copy_preserving (c results : chop) (inverted : bool) : option chop :=
  if inverted then chop_invert_opt (chop_copy_base c results) else Some (chop_copy_base c results).
