(** C07 - real-valued definitions behind "valid", "length of the written spline" and "sense of the
    written arc" (no proofs in this file).

    Transcribed from /repo/src/classy_blocks:
      items/edges/edge.py           Edge.is_valid:   kind != line and not norm(v1 - v2) < TOL
      items/edges/arcs/arc_base.py  ArcEdgeBase.is_valid: ... and abs(norm(cross(v1 - p3, v2 - p3))) > TOL
      items/edges/curve.py          SplineEdge.length = polyline length of [v1] + points + [v2]
      util/functions.py             polyline_length
    numpy arithmetic is read as real arithmetic; harness/props/C07.py lets Coq ([interval]) decide per case
    that these definitions agree with what the Python code did. *)
From Coq Require Import Reals List.
From CB Require Import Base.Vec3.
Import ListNotations.
Open Scope R_scope.

Definition dist (p q : vec) : R := norm (vsub p q).

(** functions.polyline_length *)
Fixpoint plen (l : list vec) : R :=
  match l with
  | p :: (q :: _) as r => dist p q + plen r
  | _ => 0
  end.

(** SplineEdge.length / PolyLineEdge.length: np.concatenate(([v1], point_array, [v2])) *)
Definition spline_length (v1 : vec) (pts : list vec) (v2 : vec) : R := plen (v1 :: pts ++ [v2]).

(** the three behaviours of is_valid *)
Inductive vkind := KLine | KArc3 | KOther.

(** Edge.is_valid (second test): the end vertices are not closer than TOL *)
Definition far (tol : R) (v1 v2 : vec) : Prop := ~ (dist v1 v2 < tol).
(** ArcEdgeBase.is_valid: the third point is not collinear with the end vertices *)
Definition collinearity (v1 p3 v2 : vec) : R := norm (cross (vsub v1 p3) (vsub v2 p3)).
Definition noncollinear (tol : R) (v1 p3 v2 : vec) : Prop := tol < Rabs (collinearity v1 p3 v2).

(** "the entry is eligible for the edges section" *)
Definition eligible (tol : R) (k : vkind) (v1 p3 v2 : vec) : Prop :=
  match k with
  | KLine => False
  | KOther => far tol v1 v2
  | KArc3 => far tol v1 v2 /\ noncollinear tol v1 p3 v2
  end.

(** sense of the arc from p1 to p2 through t about the axis a: positive iff it turns
    counter-clockwise seen against a (for less than a full turn):
    (t - (p1 + p2)/2) . ((p2 - p1) x a) *)
Definition bulge (p1 p2 t a : vec) : R :=
  dot (vsub t (vscale (/ 2) (vadd p1 p2))) (cross (vsub p2 p1) a).

(** the written point sequence of a point-list edge: first vertex, listed points, second vertex *)
Definition drawn (v1 : vec) (pts : list vec) (v2 : vec) : list vec := v1 :: pts ++ [v2].
