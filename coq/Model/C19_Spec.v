(** C19 - executable specification predicates and case checkers (no proofs).

    The first part states, as booleans over the tables the harness regenerates from /repo on every run,
    what "core and shell partition the faces / operations into those that do not touch and those that
    touch the outer surface" means.  The topology (quads as point ids) and the outer-ring flags of the
    points come from the real sketch; the predicate is independent of the library.
    The second part are the comparison functions of the correspondence files (model of Model/C19_Stack.v
    evaluated on the implementation's observations). *)
From Coq Require Import String.
From Coq Require Import List Bool Arith ZArith.
From CB Require Import Model.C19_Stack.
Import ListNotations.
Open Scope nat_scope.

Definition mem (x : nat) (l : list nat) : bool := existsb (Nat.eqb x) l.
Fixpoint nodupb (l : list nat) : bool :=
  match l with [] => true | x :: r => negb (mem x r) && nodupb r end.
(** [l] lists every number below [n] exactly once *)
Definition perm_of_range (n : nat) (l : list nat) : bool :=
  (length l =? n) && nodupb l && forallb (fun x => x <? n) l.

Definition quad_of (quads : list (list nat)) (f : nat) : list nat := nth f quads [].
Definition cyc_pairs (q : list nat) : list (nat * nat) :=
  match q with [] => [] | x :: r => combine q (r ++ [x]) end.
(** a face touches the outer boundary along an edge / in a point *)
Definition has_outer_edge (outer q : list nat) : bool :=
  existsb (fun ab => mem (fst ab) outer && mem (snd ab) outer) (cyc_pairs q).
Definition has_outer_point (outer q : list nat) : bool := existsb (fun p => mem p outer) q.
Definition opt_list (o : option (list nat)) : list nat := match o with Some l => l | None => [] end.

(** the rows of a radial grid are rings, inner ones first: some prefix of the rows is exactly the core
    (in order) and the remaining rows are exactly the shell *)
Definition rings_ok (grid : list (list nat)) (c shell : list nat) : bool :=
  existsb (fun k => list_eqb Nat.eqb (concat (firstn k grid)) c && list_eqb Nat.eqb (concat (skipn k grid)) shell)
          (seq 0 (S (length grid))).

(** ** round sketches: name, (quads, outer-ring points, grid, core, shell) *)
Definition sketch_entry := (string * (list (list nat) * list nat * list (list nat) * option (list nat) * list nat))%type.

Definition sketch_ok (e : sketch_entry) : bool :=
  let '(_, (quads, outer, grid, core, shell)) := e in
  let nf := length quads in
  let c := opt_list core in
  forallb (fun q => length q =? 4) quads
  && perm_of_range nf (c ++ shell)
  && forallb (fun f => has_outer_edge outer (quad_of quads f)) shell
  && forallb (fun f => negb (has_outer_point outer (quad_of quads f))) c
  && perm_of_range nf (concat grid)
  && rings_ok grid c shell.

(** ** round shapes lofted from sketches: name, (quads of sketch_1, outer points, sketch face under each
    operation, operation joins face n of sketch_1 to face n of sketch_2, shape.grid, sketch_1.grid, core, shell) *)
Definition lofted_entry :=
  (string * (list (list nat) * list nat * list nat * list bool * list (list nat) * list (list nat) * option (list nat) * list nat))%type.

Definition lofted_ok (e : lofted_entry) : bool :=
  let '(_, (quads, outer, bottom, joined, grid, sgrid, core, shell)) := e in
  let n := length bottom in
  match core with
  | None => false
  | Some c =>
      perm_of_range n (c ++ shell)
      && forallb (fun o => has_outer_edge outer (quad_of quads (nth o bottom 0))) shell
      && forallb (fun o => negb (has_outer_point outer (quad_of quads (nth o bottom 0)))) c
      && (length joined =? n) && forallb (fun b : bool => b) joined
      && list_eqb (list_eqb Nat.eqb) (map (map (fun o => nth o bottom 0)) grid) sgrid
      && rings_ok grid c shell
  end.

(** ** round shapes without sketches: name, (number of operations, has a side on the outer surface,
    has a corner on it, grid, core, shell) *)
Definition solid_entry :=
  (string * (nat * list bool * list bool * option (list (list nat)) * option (list nat) * list nat))%type.

Definition solid_ok (e : solid_entry) : bool :=
  let '(_, (n, touch, anyp, grid, core, shell)) := e in
  match core, grid with
  | Some c, Some g =>
      perm_of_range n (c ++ shell)
      && forallb (fun o => nth o touch false) shell
      && forallb (fun o => negb (nth o anyp true)) c
      && perm_of_range n (concat g)
      && rings_ok g c shell
  | _, _ => false
  end.

(** * correspondence: stacks *)
Fixpoint insert (x : nat) (l : list nat) : list nat :=
  match l with [] => [x] | y :: r => if x <=? y then x :: l else y :: insert x r end.
Definition isort (l : list nat) : list nat := fold_right insert [] l.

(** (compare the grid?, nx, ny, nz, grid as lattice cells, grid as operation ids,
     slices: axis, index, sorted ids or None for IndexError) *)
Definition stack_case :=
  (bool * nat * nat * nat * list (list (list (nat * nat * nat))) * list (list (list nat))
   * list (nat * Z * option (list nat)))%type.

Fixpoint enumerate_from {A} (s : nat) (l : list A) : list (nat * A) :=
  match l with [] => [] | x :: r => (s, x) :: enumerate_from (S s) r end.

(** 0 = the grid differs from the model's; k+1 = slice number k differs *)
Definition stack_case_errors (c : stack_case) : list nat :=
  let '(chk, nx, ny, nz, cells, ids, slices) := c in
  (if chk && negb (list_eqb (list_eqb (list_eqb nat3_eqb)) cells (stack_cells nx ny nz)) then [0] else [])
  ++ flat_map (fun ks =>
       let '(k, (axis, idx, res)) := ks in
       if opt_eqb (list_eqb Nat.eqb) (option_map isort (get_slice ids axis idx)) res then [] else [S k])
     (enumerate_from 0 slices).

(** * correspondence: delete / chop.  (number of operations, deleted id, chopped id, axis,
    observed blocks in order: operation id and the axes carrying a chop) *)
Definition delete_case := (nat * nat * nat * nat * list (nat * list nat))%type.

Definition delete_case_ok (c : delete_case) : bool :=
  let '(n, deleted, chopped, axis, observed) := c in
  let st := chop_op Nat.eqb (map (fun o => (o, [])) (seq 0 n)) chopped axis in
  let expected := assemble_ops (fun p q : nat * list nat => fst p =? fst q) st [(deleted, [])] in
  list_eqb (fun p q : nat * list nat => (fst p =? fst q) && list_eqb Nat.eqb (snd p) (snd q)) expected observed.
